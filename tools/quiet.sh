#!/bin/bash
# quiet.sh <seed> [tier] : run every check once at the given VERIF_SEED, print one line per check (used to look for flaky checks)
cd "$(dirname "$0")/.."
seed=${1:-2}; tier=${2:-quick}
for i in $(seq -w 1 20); do
  t0=$(date +%s)
  out=$(VERIF_SEED=$seed ./check C$i --tier $tier 2>&1); rc=$?
  echo "C$i seed=$seed tier=$tier rc=$rc wall=$(( $(date +%s) - t0 ))s $(echo "$out" | grep -a '^OK\|^VIOLATION\|^KNOWN\|^INFRA' | head -3 | tr '\n' ' ' | cut -c1-300)"
  if [ $rc -ne 0 ]; then echo "$out" | grep -av '^  ' | tail -15 | cut -c1-600; fi
done
