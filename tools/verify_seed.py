#!/usr/bin/env python3
"""verify_seed.py <staging dir> <n>: confirm a seeded change in a scratch worktree:
demo passes on HEAD, fails with the change; the existing suite still passes with the change (5 known failures in ./torrent ignored)."""
import sys, os, re, subprocess, json, shutil
st, n = sys.argv[1], sys.argv[2]
full = "--nosuite" not in sys.argv
ident = os.path.basename(st.rstrip("/")) + "-" + n
wt = "/tmp/seedv/" + ident
env = dict(os.environ, GOFLAGS="-mod=mod", GOPROXY="off"); env.pop("GOTOOLCHAIN", None); env.pop("GOSUMDB", None)
def sh(cmd, cwd=None, timeout=1500):
    r = subprocess.run(cmd, shell=True, cwd=cwd, env=env, stdout=subprocess.PIPE, stderr=subprocess.STDOUT, text=True, errors="replace", timeout=timeout)
    return r.returncode, r.stdout
os.makedirs("/tmp/seedv", exist_ok=True)
sh(f"git -C /repo worktree remove --force {wt}")
rc, o = sh(f"git -C /repo worktree add -q --detach {wt} HEAD")
assert rc == 0, o
res = dict(id=ident)
try:
    run = open(f"{st}/demo{n}/RUN.txt").read()
    m0 = re.search(r"go test[^\n]*?\s(\./\S+)", run)
    pkgdir = m0.group(1).strip("'\"").rstrip("/").lstrip("./")
    places = []
    import glob
    for f in glob.glob(os.path.join(st, f"demo{n}", "*.go")):
        places.append((f, os.path.join(pkgdir, os.path.basename(f))))
        shutil.copy(f, os.path.join(wt, pkgdir, os.path.basename(f)))
    m = re.search(r"go test[^\n]*", run)
    cmd = m.group(0).strip()
    cmd = re.sub(r"\s+2>&1.*$", "", cmd)
    cmd = re.sub(r"\s+\|.*$", "", cmd)
    res["demo_cmd"] = cmd
    rc0, o0 = sh(cmd, cwd=wt)
    res["demo_without_change"] = "pass" if rc0 == 0 else "FAIL"
    rc, o = sh(f"git apply {os.path.abspath(st)}/change{n}.diff", cwd=wt)
    res["applies"] = rc == 0
    if rc != 0:
        res["apply_err"] = o[-500:]
    rc1, o1 = sh(cmd, cwd=wt)
    res["demo_with_change"] = "pass" if rc1 == 0 else "fail"
    res["demo_fail_tail"] = o1[-600:] if rc1 != 0 else ""
    if full:
        for src, dst in places:   # suite without the demo file
            os.remove(os.path.join(wt, dst))
        rc2, o2 = sh("go test -vet=off -count=1 -timeout 25m ./... 2>&1", cwd=wt)
        fails = sorted(set(re.findall(r"^--- FAIL: (\S+)", o2, re.M)))
        known = {"TestDownloadMagnet", "TestDownloadTorrent", "TestDownloadWebseed", "TestTorrentDir", "TestTorrentFiles"}
        newf = [f for f in fails if f not in known]
        still = []
        for f in newf:   # rerun alone: load-dependent flakes (e.g. piececache TestTTL, fixed-port tracker tests) pass on their own
            rc3, o3 = sh(f"go test -vet=off -count=1 -run '^{f}$' ./... 2>&1", cwd=wt)
            if rc3 != 0 and re.search(r"^--- FAIL: " + re.escape(f), o3, re.M):
                still.append(f)
        res["suite_flaky_failures"] = [f for f in newf if f not in still]
        res["suite_new_failures"] = still
        res["suite_build_ok"] = "[build failed]" not in o2
    if not full and os.path.exists(f"{st}/verify{n}.json"):
        old = json.load(open(f"{st}/verify{n}.json"))
        for k in ("suite_new_failures", "suite_flaky_failures", "suite_build_ok"):
            if k in old:
                res[k] = old[k]
    res["ok"] = res["demo_without_change"] == "pass" and res["demo_with_change"] == "fail" and res.get("applies") and ("suite_new_failures" in res and not res["suite_new_failures"] and res.get("suite_build_ok", False))
finally:
    sh(f"git -C /repo worktree remove --force {wt}")
print(json.dumps(res, indent=1))
json.dump(res, open(f"{st}/verify{n}.json", "w"), indent=1)
