#!/usr/bin/env python3
"""Regenerates /verif/MANIFEST.json from units.py (claimed properties) and the NOT_CLAIMED table below."""
import json, os, sys
ROOT = os.path.dirname(os.path.dirname(os.path.abspath(__file__)))
sys.path.insert(0, ROOT)
from units import PROPS, NOT_CLAIMED, HOOK_COMMITS

checks = []
for pid in sorted(PROPS):
    p = PROPS[pid]
    checks.append(dict(
        property_id=pid,
        quick_cmd=f"./check {pid} --tier quick",
        thorough_cmd=f"./check {pid} --tier thorough",
        evidence_file=f"/verif/evidence/{pid}.json",
        replay_cmd_template=f"./check {pid} --replay {{path}}",
        engine="rapid-harness",
        level_claimed=dict(category=p["level"], text=p["level_text"], design_ref=p.get("design_ref", "DESIGN.md §5 " + pid)),
        level_note=p["level_note"],
        technique=p["technique"],
    ))
m = dict(
    version=1,
    setup_cmd="./setup.sh",
    hooks=dict(guard="verif", enable="go test -tags verif (no hook is currently needed: every observation point is reached through the public API, Config.CustomStorage, the wire, or exported internal packages imported by the harness module)",
               baseline_off_cmd="cd /repo && go test -vet=off -count=1 -timeout 25m ./...",
               source_commits=HOOK_COMMITS, add_only=True),
    engines=[dict(name="rapid-harness", path="/verif/harness", serves_properties=sorted(PROPS),
                  kind_free_text="property-based testing (pgregory.net/rapid v1.3.0: generators, state machines, shrinking) + native go fuzzing in the thorough tier; driver ./check shards by seed, merges statistics, replays pinned reproducers")],
    checks=checks,
    notes="Every check: exit 0 held / exit 1 + VIOLATION line / exit 2 infrastructure trouble (never a violation). Known findings: known_findings.json.",
    not_applicable=[dict(property_id=k, reason=v) for k, v in sorted(NOT_CLAIMED.items()) if k not in PROPS],
)
json.dump(m, open(os.path.join(ROOT, "MANIFEST.json"), "w"), indent=1)
print("wrote MANIFEST.json:", len(checks), "checks,", len(m["not_applicable"]), "not claimed")
