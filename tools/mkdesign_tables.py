#!/usr/bin/env python3
"""Regenerates the generated tables of DESIGN.md (units, findings, seeded changes) between their marker comments."""
import json, re, os, importlib.util, glob
ROOT = os.path.dirname(os.path.dirname(os.path.abspath(__file__)))
spec = importlib.util.spec_from_file_location('units', os.path.join(ROOT, 'units.py')); u = importlib.util.module_from_spec(spec); spec.loader.exec_module(u)

def units_table():
    rows = []
    for pid in sorted(u.PROPS):
        for un in u.PROPS[pid]['units']:
            rule = re.sub(r'\s+', ' ', un['rule']).replace('|', '/')
            tag = ' (race build)' if un.get('race') else (' (overlay)' if str(un['pkg']).startswith('ov:') else '')
            rows.append(f"| {pid} | `{un['name']}`{tag} | {rule} | {un['quick']['checks']} / {un['thorough']['checks']} |")
    return "| prop | unit | what one case is and what is asserted | cases Q / T |\n|---|---|---|---|\n" + "\n".join(rows) + "\n"

def findings_table():
    rows = []
    for f in json.load(open(os.path.join(ROOT, 'known_findings.json'))):
        disp = '**open** (known finding)' if f['status'] == 'open' else 'fixed in `' + f.get('commit', '') + '`'
        rep = ('`' + f['reproducer'] + '`') if f.get('reproducer') else 'race signature (no deterministic reproducer)'
        rows.append(f"| {f['id']} | {f['property']} | {f['what'].replace('|', '/')} | {disp} | {rep} |")
    return "| finding | property | what fails (specific input / history) | disposition | pinned reproducer |\n|---|---|---|---|---|\n" + "\n".join(rows) + "\n"

def seeds_table():
    rows = []
    for p in sorted(glob.glob(os.path.join(ROOT, 'seeded', 'C*-*', 'meta.json'))):
        d = os.path.dirname(p); sid = os.path.basename(d)
        m = json.load(open(p))
        r = json.load(open(os.path.join(d, 'result.json'))) if os.path.exists(os.path.join(d, 'result.json')) else None
        files = ', '.join(os.path.basename(f) for f in (m.get('files') or [])[:2])
        if r is None:
            res, units = 'not swept', ''
        else:
            tier = next((x['tier'] for x in r['runs'] if x['rc'] == 1), None)
            chk = sorted({x['check'] for x in r['runs'] if x['rc'] == 1})
            units = ', '.join(sorted({un for x in r['runs'] if x['rc'] == 1 for un in x['units']}))
            res = 'superseded (now the repaired behaviour, see §9)' if r.get('superseded') else 'no longer breaks the property (neutralised by fix ca397ca, see §7)' if r.get('neutralised') else ('caught (' + tier + (', check ' + '+'.join(chk) if chk != [m['property']] else '') + ')') if r['caught'] else ('MISSED' if r['applies'] else 'patch does not apply')
        summary = re.sub(r'\s+', ' ', m.get('summary', ''))[:150].replace('|', '/')
        rows.append(f"| {sid} | {files} | {summary} | {res} | {units} |")
    return "| seed | file | change (abridged from the author's note) | result | reporting units / pinned reproducers |\n|---|---|---|---|---|\n" + "\n".join(rows) + "\n"

s = open(os.path.join(ROOT, 'DESIGN.md')).read()
for name, fn in (('UNITS', units_table), ('FINDINGS', findings_table), ('SEEDS', seeds_table)):
    a, b = f'<!-- BEGIN {name} TABLE (tools/mkdesign_tables.py) -->\n', f'<!-- END {name} TABLE -->\n'
    if a in s and b in s:
        s = s[:s.index(a) + len(a)] + fn() + s[s.index(b):]
    else:
        print('markers missing for', name)
open(os.path.join(ROOT, 'DESIGN.md'), 'w').write(s)
print('tables regenerated')
