#!/usr/bin/env python3
"""seedrun.py <seed dir> <n> <PROP> [tier]: apply a seeded change to a scratch worktree, run ./check PROP against it (VERIF_REPO), report."""
import sys, os, subprocess, json, time
st, n, prop = sys.argv[1], sys.argv[2], sys.argv[3]
tier = sys.argv[4] if len(sys.argv) > 4 else "quick"
ident = os.path.basename(st.rstrip("/")) + "-" + n + "-" + prop
wt = "/tmp/seedr/" + ident
os.makedirs("/tmp/seedr", exist_ok=True)
subprocess.run(f"git -C /repo worktree remove --force {wt}", shell=True, capture_output=True)
subprocess.run(f"git -C /repo worktree add -q --detach {wt} HEAD", shell=True, check=True)
patch = os.path.abspath(os.path.join(st, f"change{n}.diff" if os.path.exists(os.path.join(st, f"change{n}.diff")) else "patch.diff"))
try:
    subprocess.run(f"git apply {patch}", shell=True, cwd=wt, check=True)
    t0 = time.time()
    r = subprocess.run(["./check", prop, "--tier", tier], cwd=os.path.dirname(os.path.dirname(os.path.abspath(__file__))),
                       env=dict(os.environ, VERIF_REPO=wt), stdout=subprocess.PIPE, stderr=subprocess.STDOUT, text=True)
    lines = [l for l in r.stdout.splitlines() if l.startswith(("VIOLATION", "OK", "INFRA", "KNOWN", "BUILD"))]
    print(json.dumps(dict(seed=ident, rc=r.returncode, wall=round(time.time() - t0, 1), caught=r.returncode == 1, lines=lines[:4], tail=r.stdout[-700:] if r.returncode != 0 else "")))
finally:
    subprocess.run(f"git -C /repo worktree remove --force {wt}", shell=True, capture_output=True)
