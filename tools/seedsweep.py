#!/usr/bin/env python3
"""seedsweep.py [ids...] [--thorough-if-missed] : run every seeded change under /verif/seeded/<id>/ against the checks.

For each seed: create a scratch worktree of /repo (HEAD) under /tmp/seedsweep/<id>, apply patch.diff, run
./check <PROP> --tier quick with VERIF_REPO pointing at it (evidence is not written in that mode), and, if the quick tier
stays green and --thorough-if-missed is given, the thorough tier. The result (caught, by which units, first message, wall time,
/repo commit) is written into seeded/<id>/result.json and summarised in seeded/RESULTS.md. Worktrees are removed afterwards."""
import sys, os, subprocess, json, time, re, glob

ROOT = os.path.dirname(os.path.dirname(os.path.abspath(__file__)))
SEEDED = os.path.join(ROOT, "seeded")


def run_seed(sid, thorough_if_missed):
    d = os.path.join(SEEDED, sid)
    meta = json.load(open(os.path.join(d, "meta.json")))
    prop = meta["property"]
    props = meta.get("run_against", [prop])
    if meta.get("superseded"):
        return dict(seed=sid, property=prop, repo_head="", applies=False, caught=False, runs=[], superseded=True)
    if meta.get("neutralised"):
        return dict(seed=sid, property=prop, repo_head="", applies=True, caught=False, runs=[], neutralised=True)
    wt = "/tmp/seedsweep/" + sid
    os.makedirs("/tmp/seedsweep", exist_ok=True)
    subprocess.run(f"git -C /repo worktree remove --force {wt}", shell=True, capture_output=True)
    subprocess.run(f"git -C /repo worktree add -q --detach {wt} HEAD", shell=True, check=True)
    head = subprocess.run("git -C /repo rev-parse --short HEAD", shell=True, capture_output=True, text=True).stdout.strip()
    res = dict(seed=sid, property=prop, repo_head=head, applies=False, caught=False, runs=[])
    try:
        r = subprocess.run(["git", "apply", os.path.join(d, "patch.diff")], cwd=wt, capture_output=True, text=True)
        if r.returncode != 0:
            res["error"] = "patch does not apply: " + r.stderr.strip()[:300]
            return res
        res["applies"] = True
        b = subprocess.run("go build ./...", shell=True, cwd=wt, capture_output=True, text=True,
                           env=dict(os.environ, GOFLAGS="-mod=mod", GOPROXY="off"))
        if b.returncode != 0:
            res["error"] = "does not build: " + b.stderr[-300:]
            return res
        tiers = ["quick"] + (["thorough"] if thorough_if_missed else [])
        for tier in tiers:
            for p in props:
                t0 = time.time()
                r = subprocess.run(["./check", p, "--tier", tier], cwd=ROOT, env=dict(os.environ, VERIF_REPO=wt),
                                   stdout=subprocess.PIPE, stderr=subprocess.STDOUT, text=True)
                out = r.stdout
                units = sorted(set(re.findall(r"^(c\d\d\.[a-z0-9]+): (?!\d+ cases)", out, re.M)))
                units += sorted(set(m for m in re.findall(r"replay=\S*/findings/(\S+)\.json", out)))
                first = ""
                for l in out.splitlines():
                    if re.match(r"^c\d\d\.[a-z0-9]+: (?!\d+ cases)", l):
                        first = l[:400]
                        break
                res["runs"].append(dict(check=p, tier=tier, rc=r.returncode, wall_s=round(time.time() - t0, 1), units=units, first_message=first))
                if r.returncode == 1:
                    res["caught"] = True
                elif r.returncode != 0:
                    res["error"] = f"check {p} exited {r.returncode}: " + out[-400:]
            if res["caught"]:
                break
        return res
    finally:
        subprocess.run(f"git -C /repo worktree remove --force {wt}", shell=True, capture_output=True)
        subprocess.run(f"rm -rf {wt}", shell=True)


def main():
    args = [a for a in sys.argv[1:] if not a.startswith("--")]
    thorough = "--thorough-if-missed" in sys.argv
    ids = args or sorted(os.path.basename(p) for p in glob.glob(os.path.join(SEEDED, "C*-*")))
    for sid in ids:
        res = run_seed(sid, thorough)
        json.dump(res, open(os.path.join(SEEDED, sid, "result.json"), "w"), indent=1)
        print(json.dumps({k: res[k] for k in ("seed", "applies", "caught")} | {"units": sorted({u for r in res["runs"] for u in r["units"]}), "err": res.get("error", "")[:200]}), flush=True)
    # summary
    rows = []
    for p in sorted(glob.glob(os.path.join(SEEDED, "C*-*", "result.json"))):
        r = json.load(open(p))
        m = json.load(open(os.path.join(os.path.dirname(p), "meta.json")))
        tier = next((x["tier"] for x in r["runs"] if x["rc"] == 1), "-")
        units = sorted({u for x in r["runs"] if x["rc"] == 1 for u in x["units"]})
        rows.append(f"| {r['seed']} | {m.get('files', [''])[0] if m.get('files') else ''} | {'yes' if r['applies'] else 'NO'} | {'superseded' if r.get('superseded') else 'neutralised by a later fix' if r.get('neutralised') else ('caught (' + tier + ')' if r['caught'] else 'MISSED')} | {', '.join(units)} | {r['repo_head']} |")
    with open(os.path.join(SEEDED, "RESULTS.md"), "w") as f:
        f.write("# Seeded changes vs the checks\n\nWritten by tools/seedsweep.py (each change applied to a scratch worktree of /repo HEAD, `./check <property>` run with VERIF_REPO).\n\n")
        f.write("| seed | first file touched | applies | result | reporting units / pinned reproducers | /repo HEAD |\n|---|---|---|---|---|---|\n")
        f.write("\n".join(rows) + "\n")


if __name__ == "__main__":
    main()
