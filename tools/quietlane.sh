#!/bin/bash
# quietlane.sh <seed> <tier> <ids...> : like quiet.sh for a list of checks (several lanes can run side by side to load the machine)
cd "$(dirname "$0")/.."
seed=$1; tier=$2; shift 2
for id in "$@"; do
  t0=$(date +%s)
  out=$(VERIF_SEED=$seed ./check $id --tier $tier 2>&1); rc=$?
  echo "$id seed=$seed tier=$tier rc=$rc wall=$(( $(date +%s) - t0 ))s $(echo "$out" | grep -a '^OK\|^VIOLATION\|^KNOWN\|^INFRA' | head -3 | tr '\n' ' ' | cut -c1-300)"
  if [ $rc -ne 0 ]; then echo "$out" | grep -av '^  ' | tail -15 | cut -c1-600; fi
done
