# Table of executable units per property. checks = total rapid cases over all shards.
def U(name, pkg, test, rule, quick, thorough, **kw):
    d = dict(name=name, pkg=pkg, test=test, rule=rule, quick=quick, thorough=thorough)
    d.update(kw)
    return d

def Q(checks, shards=4, timeout=600):
    return dict(checks=checks, shards=shards, timeout=timeout)

def T(checks, shards=16, timeout=3600):
    return dict(checks=checks, shards=shards, timeout=timeout)

HOOK_COMMITS = []

# Properties not (yet) claimed; a property leaves this table as soon as a check is registered in PROPS.
NOT_CLAIMED = {k: "check not built yet in this session (work in progress; see DESIGN.md §5 for the planned oracle)" for k in
               ["C%02d" % i for i in range(1, 21)]}

MODEL_TRUST = "harness/model (own bencode codec, SHA-1 from the Go standard library, flat array F) shares no code with rain"

PROPS = {}

def P(pid, **kw):
    kw.setdefault("level", "exploration")
    PROPS[pid] = kw

P("C02",
  level_text="Bounded random exploration with shrinking: tens of thousands (quick) to millions (thorough) of generated torrent layouts "
             "are pushed through rain's parser, allocator, piece mapper, block calculator, reader/writer and verifier and every result is "
             "compared with an independent flat-byte-array model in both directions (nothing missing, nothing extra). Exploration is the right level: "
             "the functions are pure and cheap, the input space (file vectors x piece lengths) is unbounded, and the defects live at coincidences "
             "of boundaries that a biased generator reaches quickly. The creation clause is decided by c02.create: generated directory trees are written to disk, turned into a torrent by "
             "the client's own creation code and verified both independently (hash the files in the listed order) and with the client's allocator + verifier.",
  level_note="Trusted: " + MODEL_TRUST + "; the in-memory storage double. "
             "Bounds: total <= 1 MiB, <= 256 pieces, <= 8 files per layout. No absence claim beyond the explored cases.",
  technique="property-based testing (rapid) against a reference model; metamorphic byte-flip on the verifier",
  rule="rapid-generated torrent layouts (file vectors with boundary-biased lengths, padding files anywhere, piece lengths 1..131072) "
       "judged against an independent flat byte array F; non-trivial = >=2 files and >=1 coincidence label "
       "(file end at piece/block end, padding at piece/block start, whole-piece padding, zero-length file, short last piece, "
       "piece length not a multiple of 16 KiB); distinct = distinct case fingerprint",
  assumptions=["ground truth F, SHA-1 strings and the bencoded info are produced by harness/model, which shares no code with rain",
               "the in-memory storage double behaves like a file (bounds-checked ReadAt/WriteAt)"],
  units=[
   U("c02.geometry", "c02", "TestGeometry",
     "layout -> metainfo.NewInfo -> allocator.Run(mem storage) -> piece.NewPieces: section walk == file walk of F, piece lengths, "
     "CalculateBlocks == non-padding bytes exactly, Write/ReadAt round trip on sub-ranges, verifier metamorphic (flip one byte)",
     Q(12000, 6), T(1600000), min_nontrivial_frac=0.3),
   U("c02.create", "c02", "TestCreate",
     "a generated directory tree (1-9 files, 1-3 levels, names chosen so that a directory name is a prefix of sibling names, zero-length files, lengths around block and piece size) "
     "or a single file is written to disk, a torrent is created from it with the client's own creation code (piece length chosen or automatic, explicit name or not), and "
     "(1) independently: every file listed once with its length, and hashing the files in the listed order reproduces every piece hash; (2) with the client's own pipeline: the "
     "allocator finds every file and the verifier verifies every piece",
     Q(1200, 8), T(60000), min_nontrivial_frac=0.3),
  ])

P("C03",
  level_text="Bounded random exploration: generated (layout, read-cache block size, cache capacity, TTL, request history) cases drive the cached "
             "piece reader that backs every piece message; each returned buffer is compared with the flat model F and a short success is a failure. The same reader under 2-6 concurrent "
             "readers sharing a cache of 1-4 blocks (c03.concurrent), and a real seeding session answering generated valid and invalid requests of scripted leechers (c03.serve).",
  level_note="Trusted: " + MODEL_TRUST + "; for the session-level unit the scripted leecher and its reference codec. Each session case runs in a child process (crash = violation with stack).",
  technique="property-based testing (rapid) with a reference model (flat byte array)",
  rule="reads (piece, offset, length<=16 KiB) through cachedpiece.ReadAt over generated layouts, cache block sizes 1..200000 and capacities "
       "{0, one block, few blocks, huge}; non-trivial = request unaligned to 16 KiB, or crossing a cache block, or on a multi-section piece",
  assumptions=["in-memory storage never fails, so any error or short read is attributable to the reader"],
  units=[
   U("c03.cachedpiece", "c03", "TestCachedPiece",
     "cachedpiece.ReadAt == F for generated offsets/lengths/cache geometries; cold, warm, evicted and expired cache entries",
     Q(4000, 8), T(400000), min_nontrivial_frac=0.3),
   U("c03.concurrent", "c03", "TestConcurrent",
     "2-6 concurrent readers, each repeating its own generated list of block reads 5-40 times, through one read cache with room for 1-4 cache blocks (every load evicts) or a 1 ms "
     "TTL: every returned buffer == F, no error, no short success, no crash",
     Q(800, 8, 600), T(60000, 16), env={"VERIF_JOURNAL": "1"}),
   U("c03.serve", "c03", "TestServe",
     "a real session seeding a generated layout (optionally with damaged pieces it therefore does not have) under generated read-cache block size / capacity / TTL and MaxRequestsIn, "
     "1..3 scripted leechers sending generated requests (aligned, unaligned, duplicates, zero-length, > 16 KiB, out-of-bounds begin/length incl. 32-bit wrap, bad index, pieces not held), "
     "cancels, interest changes, bursts: judged in stream order - every piece message answers an outstanding valid request with exactly F's bytes, never for an invalid request or a piece "
     "not held, never while choked unless allowed-fast; upload counter == payload received when nobody was dropped; storage never written",
     Q(240, 8, 900), T(8000, 16), min_nontrivial_frac=0.15, shrinktime="30s"),
  ])

P("C06",
  level_text="Bounded random exploration of adversarial bencoded info dictionaries (grammar-based mutation of valid layouts) through metainfo.New/NewInfo; "
             "an accepted description must satisfy the well-formedness predicate and piece construction must terminate under a watchdog with bounded allocation. "
             "The same inputs are handed to a real Session through its four doors (.torrent, URL body, metadata from a peer for a magnet link, resume record) with generated size and "
             "piece-count limits and then started (c06.session).",
  level_note="Trusted: " + MODEL_TRUST + ". A hang is detected by a 20 s watchdog (the case is saved and the shard exits at once); "
             "allocation is measured with runtime.MemStats.TotalAlloc around the parser call.",
  technique="property-based testing (rapid): grammar mutation of valid inputs + validity predicate + watchdog",
  rule="valid small layout + 0..3 adversarial field mutations (negative/overflowing/sum-preserving lengths, piece length 0/huge, pieces string +-k, wrong types, "
       "duplicate/unsorted keys, nesting up to 5M, huge declared strings, both modes, odd private values); non-trivial = >=1 mutation; distinct = case fingerprint",
  assumptions=["the well-formedness predicate is the one in the property statement; limits (MaxPieces, MaxTorrentSize) are session-level and checked by the session unit"],
  units=[
   U("c06.info", "c06", "TestInfo",
     "metainfo.New / NewInfo on mutated info dictionaries: reject or well-formed; NewPieces/CalculateBlocks terminate; parser allocation <= 64*len+8MiB",
     Q(20000, 4), T(2000000), min_nontrivial_frac=0.4, env={"VERIF_JOURNAL": "1"}),
   U("c06.session", "c06", "TestSession",
     "the same mutated info dictionaries handed to a real Session through its four doors - .torrent file, torrent URL body, info dictionary served by a scripted peer for a "
     "magnet link, info stored in the resume database - with generated MaxPieces (at / just below the torrent's piece count) and MaxTorrentSize / MaxMetadataSize (200 B - 20 KB), "
     "then started on a storage stub that refuses files above 32 MiB: add/start/close return within the watchdog, the torrent settles in Downloading / Seeding / Stopped, and what "
     "it reports is well-formed (piece length > 0, >= 1 piece, non-negative file lengths summing to the total, pieces x piece length brackets the total) and within the "
     "configured limits; an unmodified valid torrent within the limits is accepted through every door",
     Q(320, 16, 300), T(9600, 16), shrinktime="20s"),
  ])

P("C07",
  level_text="Bounded random exploration: torrents whose name and path components are drawn from a hostile alphabet (dot-dot variants, separators, NUL, "
             "invalid UTF-8, look-alike dots, names around the 255-byte trim limit) are parsed; accepted ones are (a) resolved with the file storage's own rule "
             "and must stay strictly inside the storage root with distinct paths for distinct data files, and (b) allocated and fully written on a real "
             "directory tree surrounded by canary files, after which everything outside the root must be byte-identical. Tar archives with the same alphabet and all "
             "entry types go through readData and the tree outside the destination is diffed.",
  level_note="Trusted: the tree snapshot/diff in the harness; Linux path semantics (the sandbox OS). Deleting data (RemoveTorrent keepData=false) is not in the "
             "property statement and is deliberately not exercised with hostile names. The storage root (DataDir[/torrentID]) is taken as the confinement boundary.",
  technique="property-based testing (rapid): hostile-alphabet generators + filesystem tree-diff oracle",
  rule="name/path components from a hostile alphabet in single- and multi-file torrents (with name.utf-8/path.utf-8 overrides and padding attributes), both parser "
       "flag settings; tar entries with hostile names and all type flags; non-trivial = accepted metainfo (or encodable archive) containing >=1 hostile component",
  assumptions=["an accepted path that resolves to the storage root itself or to one of its ancestors is a directory and cannot be opened as a file (labelled, not a violation)"],
  units=[
   U("c07.paths", "c07", "TestPaths", "resolved path of every accepted data file strictly inside the root; distinct files -> distinct paths", Q(30000, 4), T(3000000), min_nontrivial_frac=0.2),
   U("c07.fs", "c07", "TestPathsFS", "allocate + write on a real tree with canaries; tree outside root unchanged; every file reads back its own bytes", Q(3000, 6), T(200000), min_nontrivial_frac=0.2),
   U("c07.tar", "ov:torrent", "TestVerifC07Tar", "readData on generated tar archives; tree outside destination unchanged; no symlink created", Q(4000, 4), T(300000), min_nontrivial_frac=0.1),
  ])

P("C08",
  level_text="Bounded random exploration of attacker byte streams into the real peer reader (grammar of well-formed messages mixed with hostile frames: lying "
             "length prefixes up to 2^32-1, unknown ids, wrong body sizes, truncation, hostile bencoded extension payloads) under generated TCP fragmentation, "
             "with the maximum message size itself generated. Oracle: no panic, the reader ends or delivers, allocation stays within a bound tied to the bytes fed and "
             "the maximum message size, and every message of the well-formed prefix is delivered and re-encodes (reference codec) to the bytes fed.",
  level_note="Trusted: harness/refwire (independent codec), runtime.MemStats.TotalAlloc as the allocation meter (bound 8*bytes+4*max+1MiB catches any "
             "attacker-sized allocation; it is not a byte-exact limit). Session unit: harness/speer scripted peers; each case in a child process, crash or a 70 s overrun reported with stack / goroutine dump.",
  technique="property-based testing (rapid): grammar-based stream generation + allocation/termination/prefix-delivery oracle against a reference codec",
  rule="streams of 1..10 elements (well-formed messages of every kind with 32-bit field values; hostile frames) x max message size {1K..64K} x read-size schedules; "
       "non-trivial = stream contains >=1 hostile element; extension payload unit: hostile dictionaries into ExtensionMessage.UnmarshalBinary",
  assumptions=["after the first malformed frame any behaviour short of crash/over-allocation/hang is accepted (the peer may be dropped)"],
  units=[
   U("c08.reader", "c08", "TestReaderStream", "peerreader on generated streams: no panic, bounded allocation, terminates, well-formed prefix delivered intact",
     Q(2400, 8), T(300000), min_nontrivial_frac=0.3, env={"VERIF_JOURNAL": "1"}),
   U("c08.ext", "c08", "TestExtPayload", "ExtensionMessage.UnmarshalBinary on hostile payloads: no panic, returns, allocation <= 64*len+1MiB",
     Q(20000, 4), T(2000000), min_nontrivial_frac=0.3, env={"VERIF_JOURNAL": "1"}),
   U("c08.attack", "c08", "TestAttack",
     "a real session in each state (metadata unknown, verifying on slowed storage, downloading, seeding, stop/start) attacked by 1..3 scripted peers sending generated sequences "
     "(every message kind with arbitrary field values and indexes near the real geometry, wrong-length bitfields, illegal orders, hostile raw frames) while an honest scripted peer "
     "transfers (seeder for a leeching client, leecher for a seeding one; optionally known only after the attackers): child alive, Stats() answers, the honest transfer completes with intact "
     "content, a seeding client never writes",
     Q(240, 8, 900), T(8000, 16), shrinktime="60s"),
  ])

P("C11",
  level_text="Bounded random exploration: generated sequences of every message kind the client can emit (32-bit field values, bitfields and extension payloads up to 8 KiB, "
             "metadata pieces up to 16 KiB, PEX lists) go through the real peer writer onto an in-memory connection; the bytes are compared frame by frame with an "
             "independent reference encoder (extension dictionaries: canonical bencode + field equality), then fed to the real peer reader under generated fragmentation "
             "and the delivered messages must equal the sent ones. The upload counter is compared with the payload bytes the remote received, also under an injected write failure. c11.slow adds time: a block that trickles in while the reader's "
             "piece timeout expires repeatedly must still be delivered intact, with the messages after it.",
  level_note="Trusted: harness/refwire and harness/model bencode (written from the BEPs), harness/chunkconn. Handshake bytes are checked by the C12 units (btconn).",
  technique="property-based testing (rapid): differential against an independent reference codec + round trip through the real reader",
  rule="1..12 messages per case, read-size schedules incl. 1-byte reads, optional write fault at a generated byte offset; non-trivial = >=3 kinds and "
       "(extension message > 512 B or non-empty bitfield, or a schedule splitting headers, or a write fault)",
  assumptions=["a piece for a request already served on the connection is answered with reject (documented writer behaviour) and is modelled so"],
  units=[
   U("c11.wire", "c11", "TestWire", "peerwriter bytes == reference encoding; peerreader(stream, any fragmentation) == sent messages; upload counter == payload received",
     Q(3000, 8), T(400000), min_nontrivial_frac=0.2, shrinktime="10s"),
   U("c11.slow", "c11", "TestSlow",
     "a piece message trickles into the client's reader as fragments (1 B - 16 KiB) separated by pauses (0-12 ms) with a piece timeout of 25-60 ms, so that the timeout expires up "
     "to dozens of times while bytes keep arriving, followed by 1-3 have messages: the reader delivers the identical block and every following message; cases in which a pause "
     "came close to the timeout (loaded machine) are inconclusive; non-trivial = at least two expiries inside the block",
     Q(160, 16, 600), T(4000, 16)),
  ])

P("C12",
  level_text="Bounded random exploration of MSE handshakes over an in-memory duplex transport with generated read fragmentation in both directions: rain<->rain, and "
             "rain against an independent reference endpoint whose two pads are steered over 0..512 (boundary-biased; optionally ending in a prefix of the "
             "synchronisation marker), with generated keys (equal or one bit apart), cipher offers, selection policies and initial payload sizes 0..65535. Oracle: both "
             "sides fail or both succeed; on success they agree on one offered cipher and every byte written by either side (initial payload first) is read unchanged; "
             "different keys never complete; matching keys with intersecting offer/policy always complete.",
  level_note="Trusted: harness/refmse (written from the MSE specification; DH and RC4 primitives from the Go standard library), harness/chunkconn. "
             "rain's own pad lengths are random (crypto/rand) and only sampled; the reference side's pads are steered. The policy clause (forced encryption, plaintext retry) is decided by c12.policy at the scripted end of real connections.",
  technique="property-based testing (rapid): differential/interoperability against an independent reference endpoint + round-trip of the byte stream",
  rule="pairing x key pair x offer x policy x steered pads x initial payload x read schedules x post-handshake writes; non-trivial = a reference pairing with a pad at a boundary "
       "value, or any fragmented read schedule",
  assumptions=["fault-free transport; a side that fails closes its end (as the real callers do)"],
  units=[
   U("c12.mse", "c12", "TestMSE", "handshake agreement + byte-exact duplex stream for all pads/chunkings/keys/offers", Q(3000, 6), T(400000), min_nontrivial_frac=0.4, shrinktime="10s"),
   U("c12.policy", "c12", "TestPolicy",
     "a real session under each consistent combination of disable-outgoing / force-outgoing / force-incoming dials 1-5 scripted listeners (plaintext only, MSE selecting RC4, MSE "
     "preferring plaintext, MSE selecting plaintext although it was not offered, both) and is dialed by 1-5 scripted peers (plaintext, or MSE offering plaintext / RC4 / both); "
     "every connection is recorded at the scripted end. Forced outgoing: never a plaintext handshake (the retry included), never plaintext in crypto_provide, no connection in use "
     "with a cipher other than RC4; forced incoming: a plaintext handshake is never answered and no connection is accepted with the plaintext cipher; a cipher that was not offered "
     "is never in use. Non-trivial = some direction is forced",
     Q(64, 16, 600), T(2400, 16), shrinktime="20s"),
  ])

P("C18",
  level_text="Bounded random exploration: (a) rule lists of valid CIDRs (/0../32, overlapping, nested, adjacent, duplicated) mixed with comments, blanks, IPv6 and "
             "malformed lines, over several reloads, queried at range endpoints +-1 and compared with a linear scan by an independent parser model (validity is known "
             "by construction, never guessed); a failed reload must leave the previous list in force. (b) push/pop/reset histories on the candidate-address queue compared with "
             "a model: documented filters (port 0, own loopback address, own IP together with the own listening port, blocked IP), cap, per-source counts, pops in non-increasing BEP 40 priority (independent "
             "implementation checked against the BEP's vectors), evictions oldest batch first.",
  level_note="Trusted: the harness model and its BEP 40 implementation. Which member of a partially evicted batch survives is left free (not specified); a priority "
             "collision with such a batch makes the model count ambiguous and the case is counted inconclusive. The 'never dials, accepts or announces to ...' clauses are decided by c18.session on a live session: "
             "every blocked or banned address has a listener or a recording tracker on it, every unblocked twin must be contacted.",
  technique="property-based testing (rapid): reference model (linear scan) and model-based stateful testing of the address queue",
  rule="(a) 1..3 reloads x 0..25 lines x 1..12 queries; non-trivial = list in force has >=2 rules. (b) 1..25 ops, cap 1..10; non-trivial = history exercises a filter, an eviction or a priority collision",
  assumptions=["the sandbox has no public interface address, so the 'own external interface address' filter is inert"],
  units=[
   U("c18.blocklist", "c18", "TestBlocklist", "Blocked(ip) == linear scan over the list in force after every reload", Q(30000, 4), T(4000000), min_nontrivial_frac=0.3),
   U("c18.addrlist", "c18", "TestAddrList", "addrlist push/pop/reset vs bounded-priority-set model", Q(20000, 4), T(2000000), min_nontrivial_frac=0.3),
   U("c18.session", "c18", "TestSession",
     "a real leeching session that fetched a generated blocklist (/32 and /16 rules around the harness's private addresses, comments, junk lines) from a scripted HTTP server: "
     "2-8 listeners on blocked / unblocked addresses announced by hand, in a tracker reply and in a ut_pex message; 0-4 HTTP/UDP trackers on blocked / unblocked addresses; 0-4 "
     "scripted peers dialing in from blocked / unblocked addresses; the three enable switches generated; optionally a reload that adds rules, then new listeners; optionally two "
     "listeners on one address; optionally a corrupting seeder that gets its IP banned, after which that IP is announced on 1-4 other ports side by side in one tracker reply "
     "and one ut_pex message. A listener / tracker inside the list never sees a connection or request, an incoming connection from inside the list never gets a handshake, "
     "never two simultaneous connections to one IP, never a connection to a banned IP; non-trivial = something was blocked and every unblocked twin was contacted",
     Q(64, 16, 900), T(2400, 16), shrinktime="30s"),
  ])

P("C15",
  level_text="Bounded random exploration: torrents with generated identity (info-hash and peer id of arbitrary bytes incl. bytes that need escaping and zeros in the last four "
             "positions, ports, 63-bit counters, every event) are announced through the real HTTP and UDP tracker clients to scripted trackers that decode the request with "
             "their own code; every field must equal the torrent's, and the peer id must be the same 20 bytes the client presents to peers. "
             "c15.discipline drives the periodic announcer against stub trackers with generated reply sequences (event order, spacing); c15.session judges every announce of a real "
             "session (left / counters / identity / stopped only after an accepted announce).",
  level_note="Trusted: harness/strk (own HTTP request-line/percent decoder, own BEP 15 decoder). The 'key' parameter is recorded in evidence, not asserted. An announce that fails against a stub tracker that answers correctly is reported (this is how C16-udp-connect-response-lost-to-cancel was found). "
             "Timers are real: spacing is judged with a 60 ms tolerance on the harness's own clock readings at the stub tracker. 'stopped only to trackers that accepted an announce' is decided by the session-level unit c15.session.",
  technique="property-based testing (rapid): round trip through an independent decoder on the far side of a real socket",
  rule="transport {http, udp} x identity bytes x counters x event x numwant x tracker URLs with and without a query; every case is non-trivial (distinct = distinct case)",
  assumptions=["loopback UDP/TCP deliver datagrams/streams unmodified"],
  units=[
   U("c15.wire", "c15", "TestAnnounceWire", "announce fields on the wire == torrent identity and counters, both transports", Q(2000, 4), T(200000)),
   U("c15.discipline", "c15", "TestDiscipline",
     "6 PeriodicalAnnouncer runs per case (1.8 s, real timers, client minimum 300-500 ms) against stub trackers with generated reply sequences (ok with interval/min-interval in "
     "{absent, 0, negative, tiny, huge}, failures with and without retry-in, delays) and generated complete / need-more-peers events: first event started, completed <= 1 and only "
     "if completion happened during the run, never stopped, and consecutive no-event announces after a successful reply at least min(client minimum, positive tracker values) - 60 ms apart",
     Q(48, 16, 900), T(1600, 16), shrinktime="8s"),
   U("c15.session", "c15", "TestSession",
     "a real session announces a real torrent (generated layout incl. totals that are an exact multiple of the piece length, generated set of pieces on storage, optional "
     "download from a scripted seeder and upload to a scripted leecher, one or two runs, added started or stopped) to 1-4 scripted HTTP/UDP trackers (ok / failure / silent): "
     "every announce carries the torrent's info-hash, port and one peer id (the one in the client's peer handshake); left == length of the pieces missing on storage (exact when "
     "quiescent, shape and bounds while downloading; 0 in completed), uploaded/downloaded within the torrent's counters of the run and exact in stopped; first event of a run "
     "started, completed <= 1 and only if the download finished in the run, stopped last and only to trackers that had sent an OK reply",
     Q(160, 16, 900), T(3200, 16), shrinktime="20s"),
  ])

P("C16",
  level_text="Bounded random exploration: (a) tiers of 1..5 stub trackers under generated success/failure histories up to 200 announces, including batches of concurrent "
             "announces whose interleaving the harness owns (all reach the tracker before any outcome is released), against a model: same member after success, next member "
             "cyclically after failure, exactly one step per failed batch; (b) generated HTTP replies (hostile bencode, compact and dictionary peers, oversize bodies, chunked / "
             "unframed bodies, error statuses) and (c) generated UDP datagram sequences (duplicates, foreign transaction ids carrying recognisable content, short packets, "
             "error actions with hostile payloads, wrong actions) against the real clients: error or well-formed peers, no panic, bounded allocation, socket reads bounded by the "
             "response limit, nothing from a foreign transaction ever returned.",
  level_note="Trusted: harness/strk and the tier model. 'For ever' is explored as every prefix up to 200 announces (several full cycles). The retry-after-abort clause over "
             "the shared UDP connection is decided by the announcer unit when listed. Allocation is metered with runtime.MemStats.TotalAlloc.",
  technique="property-based testing (rapid): model-based stateful testing (tier) + hostile-input generation with validity/allocation oracles (replies)",
  rule="(a) non-trivial = >=2 members and >=1 full wrap-around; (b),(c) every generated reply script is non-trivial; distinct = distinct case",
  assumptions=["the harness serialises concurrent announces at the stub tracker, so the only nondeterminism left is inside Tier itself"],
  units=[
   U("c16.tier", "c16", "TestTier", "tier member sequence == cyclic failover model, incl. concurrent announces", Q(20000, 4), T(2000000), min_nontrivial_frac=0.3),
   U("c16.httpreply", "c16", "TestHTTPReply", "HTTP reply bytes -> error or well-formed peers; bounded alloc and socket reads", Q(1600, 8), T(100000), env={"VERIF_JOURNAL": "1"}),
   U("c16.udpreply", "c16", "TestUDPReply", "UDP datagram sequences -> error or well-formed peers of the right transaction", Q(320, 8), T(20000), env={"VERIF_JOURNAL": "1"}),
   U("c16.retry", "c16", "TestRetry",
     "12 announcers per case whose first announces end without a reply (error, timeout, tracker failure, or a cancellation the announcer did not cause) + two torrents sharing one "
     "UDP tracker connection where the owner of the pending connect request is stopped at a generated time: another announce must follow within the first back-off bound (7.5 s + 0.7 s slack)",
     Q(8, 8, 900), T(160, 16), shrinktime="1s"),
  ])

P("C13",
  level_text="Bounded random exploration of the magnet clause: generated links (hex / base32 hashes, names of arbitrary bytes, 0..5 tiers of 1..3 trackers, peer "
             "addresses incl. bracketed IPv6) are exported with Magnet.String and parsed back (same hash, name, peers, and the same multiset of tiers each compared as a set), "
             "and links written the way other clients write them (percent-encoding every byte, explicit tier indexes, unrelated parameters) are parsed and compared with the generator's ground truth. "
             "The metadata-adoption clauses are decided by the session-level unit c13.metadata (child process per case).",
  level_note="Trusted: the generator's ground truth and its percent-encoder. Order between tiers is not asserted for exported links (the statement says 'each tier as a set'; "
             "single-tracker tiers are written with the index-less parameter). Lower-case base32 hashes may be rejected (labelled, not a violation).",
  technique="property-based testing (rapid): round trip + differential against generator ground truth",
  rule="non-trivial = >=2 tiers with a multi-tracker tier, or a name together with peers; distinct = distinct case",
  assumptions=[],
  units=[
   U("c13.magnet", "c13", "TestMagnet", "magnet String/New round trip and foreign-link parsing", Q(20000, 4), T(2000000), min_nontrivial_frac=0.2),
   U("c13.metadata", "c13", "TestMetadata",
     "a real magnet-added session and 1..5 scripted peers with generated ut_metadata behaviour (honest, garbage of the right size, wrong total size, short/long pieces, duplicates, unrequested indexes, reject, "
     "silent, disconnect) x announced metadata_size (true, +-1, 2^31-1, just over the configured maximum, 2^32 + true size, 0) x connect time / direction / answer delay x parallel metadata downloads x "
     "info dictionaries of 1..3 metadata pieces: if metadata is adopted it hashes to the link and carries the info name; a peer announcing more than the maximum never receives a request; with an honest peer the "
     "fetch succeeds, else the stuck-state predicate fires; a liar never stops the torrent; metadata over the configured piece limit is not adopted",
     Q(96, 16, 900), T(2000, 16), min_nontrivial_frac=0.3, shrinktime="40s"),
  ])

P("C14",
  level_text="Bounded random exploration of the resume-record clause: histories of full writes, partial updates (info, bitfield, started flag, stop-after-* handling, "
             "complete-command flag), reads and close/reopen of a real bbolt file, for several torrent ids, compared field by field with a model; every field value is generated "
             "(arbitrary bytes for hashes/info/bitfield/name, 63-bit counters, nanosecond durations, time zones, every flag, versions). The registry, port, restart and compaction clauses are decided by c14.registry on a real Session "
             "(histories incl. failing and concurrent adds, port ranges of 2-5 ports, the database read with the harness's own bbolt handle at every close).",
  level_note="Trusted: the model. Times are compared as instants at the stored one-second resolution; nil and empty lists are identified. "
             "Open finding C14-invalid-utf8-in-string-lists is excluded by construction (strings in the three JSON-encoded lists are drawn valid UTF-8) and replayed from its pinned reproducer.",
  technique="property-based testing (rapid): model-based stateful testing of the resume store (write/partial update/reopen/read)",
  rule="1..14 ops + final reopen and read of every id; non-trivial = >=1 reopen with >=1 torrent stored; distinct = distinct history",
  assumptions=["bbolt opened with NoSync for speed: durability is C05's subject, not this unit's"],
  units=[
   U("c14.spec", "c14", "TestSpec", "Write/partial update/reopen/Read == model for every field", Q(6000, 4), T(300000), min_nontrivial_frac=0.4),
   U("c14.registry", "c14", "TestRegistry",
     "histories of 3-14 operations (add .torrent / magnet with generated ids, options, tracker tiers and web seeds; invalid metainfo; remove; start; stop; add tracker; upload "
     "traffic to a scripted leecher; 2-6 concurrent adds with one explicit id or generated ids; 3 concurrent removes; compact-and-continue-on-the-compacted-file; close+reopen "
     "with resume-on-startup on/off) on a real Session with a range of 2-5 ports, against a registry model: after every step ids unique and equal to the model's, ports unique, "
     "in range, unchanged and conserved (free == range - torrents), adds fail exactly when the id is in use or no port is free; at every close the database is read with the "
     "harness's own bbolt handle: records == torrents of the session, every field == what the torrent was added with / reported just before the close (started flag, counters); "
     "after reopen the same torrents, ports, counters, tracker and web-seed counts and running state; the compacted file holds every torrent with metadata with the same fields",
     Q(96, 16, 900), T(4000, 16), shrinktime="30s"),
  ])

P("C17",
  level_text="Bounded random exploration at component level and, for the limits that only exist in a running client, from outside a real session (c17.session: upload queue, "
             "piece memory, accepted / dialed connections, address list, upload rate, web-seed caps, outstanding requests). Component level: (a) the resource manager under generated request / release / cancel / stats histories over several keys with "
             "limits from 1 unit, against a counting model: never more than the limit reserved, what the manager reports equals what callers hold whenever it is quiet, a "
             "reservation granted after its cancellation is accounted for, and everything released brings it back to zero (its own panics on over-release/over-grant kill the shard "
             "and are reported with the journaled case); (b) the read cache under get / clear / expiry histories with value sizes around the capacity: size within [0, max], "
             "values equal to what the loader produced for that key, clear empties it, close with expiries in flight does not crash.",
  level_note="Trusted: the counting model. Which queued request is granted next is the manager's free (random) choice and is not asserted. Session-level limits (connections, "
             "request queues, upload rate limit, web-seed caps, piece memory) are decided by c17.session from outside the client (Stats counters sampled every 1-2 ms and the "
             "scripted peers' own view); the download rate limit is not measured (what the client has read from a socket is not observable from outside).",
  technique="property-based testing (rapid): model-based stateful testing of the managers",
  rule="(a) 1..40 ops, limit 1..16, request sizes incl. 0, limit, limit+1, negative; non-trivial = a request was queued and later notified or cancelled. "
       "(b) 1..40 ops, capacity 0..1000, TTL 1 ms or 1 min; non-trivial = a cache hit, an expiry window or a clear occurred",
  assumptions=["callers release exactly what they were granted (the real callers' protocol)"],
  units=[
   U("c17.resourcemanager", "c17", "TestResourceManager", "resource manager vs counting model", Q(20000, 4), T(2000000), min_nontrivial_frac=0.2, env={"VERIF_JOURNAL": "1"}),
   U("c17.piececache", "c17", "TestPieceCache", "read cache: bounded size, loader values, clear/expiry", Q(2400, 8), T(200000), min_nontrivial_frac=0.3, env={"VERIF_JOURNAL": "1"}),
   U("c17.session", "c17", "TestSessionLimits",
     "one scenario per case against a real session with generated limit values from 1: queue (MaxRequestsIn 1-8, slow disk, burst of limit+0..2*limit+1 requests in one write, "
     "fast extension on/off: every request answered once, >= min(burst, limit) served, and after the queue drained exactly `limit` fresh requests are all served); ram "
     "(WriteCacheSize of 1-2 pieces, 2-4 seeders, slow writes, ended by completion / stop / remove / stop+start: Session.Stats().WriteCacheSize never above the limit and back to 0 "
     "objects / 0 bytes / 0 pending when quiet); accept (MaxPeerAccept 1-4 with good / wrong-hash / garbage / silent / half-handshake connections: incoming established+handshaking "
     "never above the limit, every failed or timed-out handshake closed by the client); dial (MaxPeerDial 1-4, MaxPeerAddresses 1-6 with listeners that never answer); rate "
     "(SpeedLimitUpload 32-100 KiB/s: bytes received in 1.3 s <= limit x (elapsed + 1 s) + one message); webseed (1-6 sources, WebseedMaxSources 1-4, WebseedMaxDownloads 1-3); "
     "reqout (MaxRequestsOut 1-8, DefaultRequestsOut, seeder advertising reqq absent / below / above / huge, pieces of 8-16 blocks: requests arrived at the seeder and not yet answered "
     "never exceed min(max, reqq or default))",
     Q(192, 16, 1200), T(4800, 16), shrinktime="30s"),
  ])

SESSION_TRUST = ("harness/speer + refwire + refmse (scripted peers), harness/strk (trackers, web seed), harness/sstore (recording storage), harness/model (ground truth F); "
                 "each case runs in a child process: a crash or an overrun of 60 s is reported with the case and the stack / goroutine dump")

P("C10",
  level_text="Bounded random exploration at session level: a real leeching session (in-memory recording storage) is started from a generated .torrent or magnet link for a "
             "generated layout, in rarest-first or sequential mode, under each encryption policy, with at least one honest full source (scripted seeder listening or dialing, "
             "plaintext or MSE, with or without the fast extension, and/or an HTTP web seed) plus 0..3 nuisance peers (never unchoke, choke cycles, stalls, disconnects, corrupt blocks, "
             "duplicates, rejected requests, allowed-fast grants, partial bitfields) and optionally a corrupting / truncating / 404 web seed or a slow honest one. Oracle: completion is signalled and every file equals F; otherwise the stuck-state "
             "predicate (honest source connected, unchoking, no request outstanding, nothing moved for 4 s) is a violation and mere slowness is inconclusive. The property's last sentence is judged on the wire: "
             "in downloads from peers alone, and in mixed downloads while the honest web seed pauses in the middle of a response, no window of 2.5 s in which the honest seeder is connected, unchoking, idle and "
             "sees the client interested while a piece is incomplete on storage, no scripted peer holds or received a request for it and the web seed cannot be reading it.",
  level_note="Trusted: " + SESSION_TRUST + ". Liveness is judged as bounded-time reachability (25 s for <= 600 KiB) plus the stuck-state safety predicate; goroutine scheduling inside the client is not controlled; windows during which the case process itself was descheduled (measured) are discarded, and timeouts of honest sources are inconclusive only then.",
  technique="property-based testing (rapid) at system level: generated configurations and fault schedules against scripted independent endpoints; stuck-state predicate and idle-seeder window",
  rule="layout x mode x source mix x encryption policy x start mode x nuisance behaviours; non-trivial = multi-file / padded / short-last-piece layout, or nuisance peers, magnet, encryption, or a bad web seed",
  assumptions=["the honest seeder is generated compatible with the client's encryption policy (the property assumes a reachable source)"],
  units=[
   U("c10.download", "c10", "TestDownload", "a real leeching session (generated layout, picker mode, encryption policy, .torrent or magnet) with an honest scripted seeder and/or honest web seed among 0-3 nuisance peers "
     "(never unchoke, choke cycles, choke or go silent for good, disconnect, stall, corrupt, duplicate, reject a request while unchoking, allowed-fast grants served or turned down by a choking peer, a yourip liar) and a bad web seed (corrupting / truncating / 404): the download "
     "completes with byte-identical files; otherwise a stuck-state predicate decides (honest source connected, unchoking and idle for a further 4 s); in peer-only cases (a magnet link carries no web seed), and in mixed cases while the honest web seed "
     "pauses in the middle of a response, no 2.5 s window in which the honest seeder is idle while a piece is incomplete, nobody holds or received a request for it and the web seed cannot be reading it", Q(320, 8, 900), T(12000, 16), min_nontrivial_frac=0.5, shrinktime="40s"),
   U("c10.wsretry", "c10", "TestWSRetry",
     "the only source is an honest web seed whose first answer fails (503 / 404 / body cut short): after the client's one-minute retry period the download finishes "
     "(one case takes a little over a minute by construction: 2 cases in the quick tier, 32 in the thorough tier, all in parallel)",
     Q(2, 2, 400), T(32, 16, 900), shrinktime="1s"),
  ])

P("C01",
  level_text="Bounded random exploration at session level: a real leeching session downloads a generated layout from 1..3 honest scripted seeders (>= 2 provoke end-game "
             "duplicates) among 1..3 adversaries (corrupt every block / one block, truncated blocks, wrong offsets, unrequested blocks, duplicates, choke cycles, disconnects) and an "
             "optional honest / corrupting / truncating web seed, with generated disk-write delays (the harness owns when a write completes) and stop/start commands at generated times. "
             "Invariants over the recorded history, all judged against the independent ground truth F: every storage write carries exactly F's bytes inside a data file; Stats().Pieces.Have never "
             "exceeds the pieces completely and correctly on storage; every have / bitfield / have-all received by any scripted peer (incl. an observer leecher) names a piece that was already complete "
             "on storage when the message arrived; on completion every piece is on storage; the resume bitfield read from the bbolt file after Close is a subset of the complete pieces; a peer that corrupted "
             "whole pieces is disconnected and refused on reconnect; the child never crashes.",
  level_note="Trusted: " + SESSION_TRUST + ". The in-memory storage double accepts writes after Close (a real file would fail), so 'write after stop' shows up as a crash or a wrong claim rather than an I/O error. "
             "Scheduling inside the client is explored, not enumerated; the ban probe is skipped once the torrent completed (a seeder has no use for the ban).",
  technique="property-based testing (rapid) at system level: fault/behaviour scripts + invariants over the recorded storage and wire history, judged against a reference model",
  rule="layout x mode x honest/adversary mix x web seed kind x write-delay schedule x stop/start schedule; non-trivial = >= 1 storage write and >= 1 have/bitfield claim observed "
       "(every case has >= 1 adversarial source); distinct = distinct case",
  assumptions=["timestamps of storage writes and of message arrival at scripted peers are taken in the same process (monotonic clock); 2 ms tolerance"],
  units=[
   U("c01.integrity", "c01", "TestIntegrity", "only hash-verified data reaches storage / stats / have messages / resume data", Q(160, 8, 900), T(6000, 16), min_nontrivial_frac=0.5, shrinktime="40s"),
  ])

P("C04",
  level_text="Bounded random exploration at session level with a model-based history: 3..18 commands (start, stop, stop-and-wait, verify, verify-and-wait, announce, add peer, add tracker, "
             "stats, peers, sleeps, wait-for-seeding) interleaved with external file mutations at points where the torrent reports Stopped (corrupt a byte, truncate, delete one file, "
             "delete all), against a real session on in-memory storage whose Open / ReadAt / WriteAt are slowed by generated delays (the harness stretches allocation, verification and "
             "writes so that commands land inside them), an honest scripted seeder and a scripted tracker that holds the 'stopped' announce for a generated time. Oracle after every op: "
             "every call returns within 10 s; Seeding only with all pieces and a storage image equal to F; Stopped only with no peers, no downloads and no open data files; completed bytes "
             "consistent with the pieces held; stop-and-wait reaches Stopped within the tracker stop timeout + 2 s; verify-and-wait ends Stopped with exactly the correct pieces marked; the last of "
             "start/stop/verify decides the end state (a start is never dropped); a final start with the seed reachable converges to complete, correct files; the child never dies.",
  level_note="Trusted: " + SESSION_TRUST + ". File corruption or truncation behind the client's back cannot be noticed without a verification: after such a mutation the 'image equals F' "
             "clause is suspended until a verification has completed (the client re-checks missing files itself, which is asserted). A start issued while a verification is still running is not "
             "asserted either way. Goroutine scheduling inside the client is not controlled.",
  technique="property-based testing (rapid) at system level: model-based stateful testing of the lifecycle with harness-owned storage timing",
  rule="non-trivial = >= 3 lifecycle commands (start/stop/verify) in the history; distinct = distinct history",
  assumptions=["external mutations are applied only while Stats() reports Stopped"],
  units=[
   U("c04.lifecycle", "c04", "TestLifecycle", "lifecycle safety and truthful status over generated command/mutation histories", Q(128, 16, 900), T(5000, 16), min_nontrivial_frac=0.3, shrinktime="90s"),
  ])

P("C05",
  level="fault_enumeration",
  level_text="Fault injection at generated and enumerated crash points: a client on the real file storage (wrapped so that the storage write itself can SIGKILL the process) downloads a generated layout "
             "from an honest seeder with the resume-write interval at 1..5 ms, and dies at the entry or exit of the k-th storage write (after a generated delay), after completion, after stop or "
             "after a verification request; optionally some data files are then removed. The parent then (a) reopens the bbolt file and decodes the torrent record, (b) computes from the bytes on disk the set V "
             "of pieces that verify, (c) starts a fresh client on the same database and directory with no peers and compares what it reports (Stats, bitfield / have messages seen by a probing peer) with V: never "
             "more than V; with nothing removed the persisted bitfield itself must be within V; (d) every data file is open with O_SYNC/O_DSYNC. The enumeration unit kills at EVERY write entry and exit "
             "(x 2 delays) of small layouts, the sampling unit draws crash points over larger ones.",
  level_note="Trusted: SIGKILL semantics of the sandbox kernel (page cache survives the kill, so a missing sync cannot be observed directly: the open-flag check is the stand-in); harness/model for hashes; "
             "the scripted seeder. Power-loss below the page cache is out of reach. Crash instants between two storage writes are covered only through the generated delays.",
  technique="fault injection with property-based generation (rapid) and exhaustive enumeration of write-entry/exit crash points per generated layout; subset oracle against on-disk ground truth",
  rule="sampling unit: layout x crash point kind x k x delay x resume interval x removed files; non-trivial = persisted bits with an incomplete disk image, or files removed. "
       "enumeration unit: layout; every (write k, entry|exit, delay) is executed; non-trivial = >= 2 storage writes",
  assumptions=["the first child is killed by its own storage wrapper, the restarted client uses the client's own file storage"],
  units=[
   U("c05.crash", "c05", "TestCrash", "sampled crash points: resume state never ahead of disk, missing files re-checked, DB reopens", Q(96, 16, 900), T(3000, 16), min_nontrivial_frac=0.15, shrinktime="40s"),
   U("c05.enum", "c05", "TestCrashEnum", "all write entry/exit crash points of small layouts (Counts: crash-points-enumerated)", Q(8, 8, 900), T(160, 16), shrinktime="10s"),
  ])

P("C19",
  level_text="Bounded random exploration at session level with a metamorphic control: each case builds one torrent twice from the same draw - once with the generated encoding of the private "
             "flag (integers incl. 0, 2, -1 and > 64 bit, strings, empty string, list, dict) and once with the flag removed - and observes both sessions through the same channels: a listener whose "
             "address is only ever mentioned in a ut_pex message sent by a scripted peer (also before the metadata is known, for magnet adds), ut_pex messages received by a scripted peer that "
             "advertises the extension, a recording UDP socket configured as the only DHT bootstrap router, a scripted HTTP tracker, Magnet(), and the handshake / extension-handshake / tracker identity "
             "strings. For the torrent the client itself classifies as private: the PEX-only address is never dialed, no ut_pex is sent, no DHT query carries its info-hash, no magnet link, and the configured "
             "private peer-id prefix, client version and user agent are used; a magnet whose metadata has private=1 is refused with an error and writes nothing. The control must show the same channels firing, "
             "otherwise the case is inconclusive.",
  level_note="Trusted: " + SESSION_TRUST + "; nictuku/dht querying its configured routers while its routing table is empty (read, and confirmed by the control run of every case). "
             "Which encodings count as private: a present key marks the torrent private unless its value is the integer 0, the empty string or the string 0 (odd types included; asserted). "
             "'never fed from the DHT' is decided by c19.dhtfeed with a scripted DHT node that answers get_peers (the asking is done by a magnet link for the same info-hash in the same session). Observation window 2.5 s per run.",
  technique="property-based testing (rapid) at system level: metamorphic pair (flip only the private flag) with scripted peers, tracker and DHT stub",
  rule="encoding x DHT/PEX settings x torrent-file or magnet x PEX before/after metadata x port message; non-trivial = the torrent is classified private (or a private magnet is refused); distinct = distinct case",
  assumptions=["both runs of a case execute in one child process, one after the other"],
  units=[
   U("c19.private", "c19", "TestPrivate", "private torrents: no DHT, no PEX in either direction, no magnet export, private identity strings; control shows the channels are live; every encoding of the flag other than 0 / \"\" / \"0\" is private; private metadata refused through a magnet link stays refused after a restart", Q(48, 16, 900), T(1200, 16), min_nontrivial_frac=0.2, shrinktime="20s"),
   U("c19.dhtfeed", "c19", "TestDHTFeed",
     "'never fed from the DHT': the session's only DHT node is scripted and answers get_peers with the addresses of listeners nobody else knows; the session holds a private torrent "
     "(generated encoding of the flag, added started or stopped-then-started) and a magnet link for the same info-hash (added before or after), which is what asks the DHT. No "
     "listener may see a handshake carrying the private torrent's peer id; non-trivial = the DHT was asked and the magnet twin did dial what it returned",
     Q(32, 16, 600), T(800, 16), shrinktime="20s"),
  ])

P("C20",
  level_text="Schedule exploration with the Go race detector: a race-instrumented child runs a seeding and a leeching session (RPC server enabled, resume writes every 2 ms) that transfer two "
             "generated torrents while 4..10 client goroutines each execute a generated op list in a loop for 2.5 s over the public API and the RPC client - stats, peers, trackers, web seeds, files, "
             "file stats, magnet, torrent export, port, add peer by IP and by host name, add tracker, start, stop, verify, announce, session stats, list, add / remove torrents (unique ids), use of a handle "
             "after removal, and the RPC counterparts. Every race report is reduced to the unordered pair of innermost rain frames; a pair not listed as an open finding is a violation whose replay file carries "
             "the op lists and the report. Every call has a 20 s watchdog (lock-up) and the child a 90 s one; a crash of the child is a violation with its stack.",
  level_note="The Go scheduler, not the harness, chooses the interleavings: this is exploration, not enumeration, and a clean run proves nothing about pairs that did not both execute. The detector flags "
             "unsynchronised pairs that merely both occur in a run, so the evidence reports which ops executed (Counts op:*). Moving torrents between sessions and concurrent add/remove of the SAME id "
             "(a C14 subject) are not exercised here.",
  technique="generated-schedule stress under the Go race detector (rapid-generated op lists; race reports deduplicated by frame pair); watchdogs for lock-ups",
  rule="case = 2 layouts + 4..10 op lists of 3..10 ops; non-trivial = >= 6 distinct ops executed while at least one torrent transferred data; distinct = distinct case",
  assumptions=["race reports are written by the runtime to a log file per process (GORACE log_path) and parsed after the child exits"],
  units=[
   U("c20.race", "c20", "TestRace", "no data race, crash or lock-up under concurrent API/RPC use while transferring", Q(16, 16, 900), T(320, 16), race=True, shrinktime="1s"),
  ])

P("C09",
  level_text="Bounded random exploration with a model-based state machine over the exported piece-picker API, driven through a thin mirror of the torrent's call protocol: have / have-all, "
             "allowed-fast, choke, unchoke, snub (only where the torrent would report it), pick for one peer or all idle peers, 'all blocks received' (piece goes to the single writer), write "
             "done / hash failure (source dropped), disconnect and reconnect, over 1..5 peers, up to 24 pieces of multi-file layouts, rarest-first and sequential mode, end-game limit 1..4, and 0..3 web "
             "seed sources backed by REAL URL downloaders whose progress the harness releases chunk by chunk through a gated fake HTTP transport (range pick, per-piece results, errors, steals). "
             "A shadow model is updated by the same ops and checked after every op: a pick is never for a done or writing piece, never for a peer that lacks it, never for a choking peer unless the peer "
             "allowed that piece as fast, never a second download for a peer; requesters of a piece never exceed the end-game limit; the picker's requester lists equal the mirror's; Available() equals the "
             "number of pieces held by a connected peer; web-seed ranges [current,End) are pairwise disjoint, inside the torrent, free of done/writing pieces when assigned, and agree with the per-piece "
             "owner; in sequential mode an unchoking peer with no pickable allowed-fast piece gets the lowest eligible index unless a file-edge piece is taken; no panic from the picker's own assertions.",
  level_note="Trusted: the mirror of the call protocol (written from torrent_messagehandler.go / torrent_write.go / torrent_webseed.go) and the shadow model. Allowed-fast pieces being taken before lower "
             "indexes for an unchoked peer in sequential mode is pinned by an existing test and accepted; file-edge pieces are recognised generously (within 1% + one piece of a file end). "
             "End-game mode is sticky in the implementation; only the numeric limit is asserted.",
  technique="property-based testing (rapid): model-based stateful testing of the picker with real web-seed downloaders under a harness-owned transport",
  rule="5..60 ops per history; non-trivial = >= 1 pick and >= 1 of {choke during a download, snub, disconnect, hash failure}; distinct = distinct history",
  assumptions=["one piece write at a time (the torrent suspends block and web-seed result delivery while a piece is being written)"],
  units=[
   U("c09.picker", "c09", "TestPicker", "piece-picker safety invariants vs shadow model", Q(12000, 8), T(800000, 16), min_nontrivial_frac=0.1, env={"VERIF_JOURNAL": "1"}),
  ])
