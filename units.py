# Table of executable units per property. checks = total rapid cases over all shards.
def U(name, pkg, test, rule, quick, thorough, **kw):
    d = dict(name=name, pkg=pkg, test=test, rule=rule, quick=quick, thorough=thorough)
    d.update(kw)
    return d

HOOK_COMMITS = []

# Properties not (yet) claimed; kept current by hand. Removed from here as soon as a check is registered.
NOT_CLAIMED = {k: "check not built yet in this session (work in progress; see DESIGN.md §5 for the planned oracle)" for k in
               ["C%02d" % i for i in range(1, 21)]}

PROPS = {
 "C02": dict(
  level="exploration",
  level_text="Bounded random exploration with shrinking: tens of thousands (quick) to millions (thorough) of generated torrent layouts "
             "are pushed through rain's parser, allocator, piece mapper, block calculator, reader/writer and verifier and every result is "
             "compared with an independent flat-byte-array model in both directions (nothing missing, nothing extra). Exploration is the right level: "
             "the functions are pure and cheap, the input space (file vectors x piece lengths) is unbounded, and the defects live at coincidences "
             "of boundaries that a biased generator reaches quickly.",
  level_note="Trusted: harness/model (own bencode encoder, SHA-1 from the Go standard library, flat array F), the in-memory storage double. "
             "Bounds: total <= 1 MiB, <= 256 pieces, <= 8 files per layout. No absence claim beyond the explored cases.",
  technique="property-based testing (rapid) against a reference model; metamorphic byte-flip on the verifier",
  rule="rapid-generated torrent layouts (file vectors with boundary-biased lengths, padding files anywhere, piece lengths 1..131072) "
       "judged against an independent flat byte array F; non-trivial = >=2 files and >=1 coincidence label "
       "(file end at piece/block end, padding at piece/block start, whole-piece padding, zero-length file, short last piece, "
       "piece length not a multiple of 16 KiB); distinct = distinct case fingerprint",
  assumptions=["ground truth F, SHA-1 strings and the bencoded info are produced by harness/model, which shares no code with rain",
               "the in-memory storage double behaves like a file (bounds-checked ReadAt/WriteAt)"],
  units=[
   U("c02.geometry", "c02", "TestGeometry",
     "layout -> metainfo.NewInfo -> allocator.Run(mem storage) -> piece.NewPieces: section walk == file walk of F, piece lengths, "
     "CalculateBlocks == non-padding bytes exactly, Write/ReadAt round trip on sub-ranges, verifier metamorphic (flip one byte)",
     dict(checks=12000, shards=6), dict(checks=1600000, shards=16), min_nontrivial_frac=0.3),
  ]),
}
