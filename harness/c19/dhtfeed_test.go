package c19

import (
	"bytes"
	"encoding/hex"
	"fmt"
	"net"
	"os"
	"sort"
	"sync"
	"testing"
	"time"

	"github.com/cenkalti/rain/v2/torrent"
	"github.com/cenkalti/rain/v2/verifharness/core"
	"github.com/cenkalti/rain/v2/verifharness/model"
	"github.com/cenkalti/rain/v2/verifharness/sess"
	"github.com/cenkalti/rain/v2/verifharness/speer"
	"github.com/cenkalti/rain/v2/verifharness/sstore"
	"pgregory.net/rapid"
)

// c19.dhtfeed: "a private torrent is never fed from the DHT". The session's only DHT node is a scripted one that
// answers every get_peers with the addresses of scripted listeners. A private torrent never asks the DHT itself, so
// the session also holds a second torrent for the same info-hash that may ask: the same content added by magnet link
// (no metadata yet, hence not known to be private) or as a .torrent without the private flag cannot share the hash, so
// the twin is always the magnet. Whatever the DHT returns for that hash must reach the twin only: a listener that
// only the DHT knows about must never see a handshake carrying the private torrent's peer id.
type FeedCase struct {
	L           model.Layout `json:"layout"`
	Enc         string       `json:"private_encoding"` // bencoded value of "private" (one that the client takes as private)
	TwinFirst   bool         `json:"magnet_added_first"`
	Listeners   int          `json:"listeners"`
	PrivStopped bool         `json:"private_added_stopped_then_started"`
}

func genFeed(t *rapid.T) FeedCase {
	c := FeedCase{L: model.GenLayout(t, model.LayoutOpts{MaxTotal: 64 << 10, MaxPieces: 8, MaxFiles: 3, NoPadding: true})}
	c.Enc = rapid.SampledFrom([]string{"i1e", "i1e", "i2e", "i-1e", "1:1", "3:yes"}).Draw(t, "enc")
	c.TwinFirst = rapid.Bool().Draw(t, "twinFirst")
	c.Listeners = rapid.IntRange(1, 3).Draw(t, "listeners")
	c.PrivStopped = rapid.IntRange(0, 3).Draw(t, "privStopped") == 0
	return c
}

func runFeed(c FeedCase) core.Result {
	l := &c.L
	F := l.Flat()
	d := l.InfoDict(F)
	d["private"] = model.Raw(c.Enc)
	infoBytes := model.Benc(d)
	ih := sha1sum(infoBytes)
	dir, cleanup := sess.Scratch("c19")
	defer cleanup()
	cfg := sess.Config(dir)
	cfg.DHTEnabled = true
	cfg.DHTHost = sess.IP(0)
	cfg.DHTPort = 17100
	cfg.PrivatePeerIDPrefix = privPrefix
	cfg.PrivateExtensionHandshakeClientVersion = privVer
	cfg.TrackerHTTPPrivateUserAgent = privUA
	cfg.CustomStorage = sstore.NewProvider()

	// listeners that only the DHT node knows about
	type seen struct {
		prefix string
		at     time.Time
	}
	var mu sync.Mutex
	var handshakes []seen
	var values []any
	var lns []net.Listener
	for i := 0; i < c.Listeners; i++ {
		ln, err := net.Listen("tcp4", sess.IP(20+i)+":0")
		if err != nil {
			panic(err)
		}
		lns = append(lns, ln)
		ta := ln.Addr().(*net.TCPAddr)
		values = append(values, string(append(append([]byte(nil), ta.IP.To4()...), byte(ta.Port>>8), byte(ta.Port))))
		go func() {
			for {
				conn, err := ln.Accept()
				if err != nil {
					return
				}
				go func() {
					var id [20]byte
					copy(id[:], "-DH0001-dhtonly00000")
					p, err := speer.Accept(conn, speer.Opts{InfoHash: ih, PeerID: id, Fast: true, Ext: true, Reqq: 250, MSEOptional: true}, 3*time.Second)
					if err != nil {
						return
					}
					mu.Lock()
					handshakes = append(handshakes, seen{prefix: string(p.ClientID[:8]), at: time.Now()})
					mu.Unlock()
					time.Sleep(500 * time.Millisecond)
					p.Close()
				}()
			}
		}()
	}
	defer func() {
		for _, ln := range lns {
			ln.Close()
		}
	}()
	// scripted DHT node: answers every query; get_peers for our hash gets the listeners as values
	ua, _ := net.ResolveUDPAddr("udp4", sess.IP(60)+":0")
	dconn, err := net.ListenUDP("udp4", ua)
	if err != nil {
		panic(err)
	}
	defer dconn.Close()
	cfg.DHTBootstrapNodes = []string{dconn.LocalAddr().String()}
	nodeID := string(bytes.Repeat([]byte{0x42}, 20))
	var getPeers, answered int
	go func() {
		buf := make([]byte, 4096)
		for {
			n, from, err := dconn.ReadFromUDP(buf)
			if err != nil {
				return
			}
			v, _, derr := model.Bdecode(buf[:n])
			q, ok := v.(map[string]any)
			if derr != nil || !ok || q["y"] != "q" {
				continue
			}
			tid, _ := q["t"].(string)
			if os.Getenv("VERIF_DEBUG") != "" {
				fmt.Fprintf(os.Stderr, "DHT stub: query %v a=%q\n", q["q"], fmt.Sprint(q["a"]))
			}
			r := map[string]any{"id": nodeID}
			if q["q"] == "get_peers" {
				a, _ := q["a"].(map[string]any)
				mu.Lock()
				getPeers++
				if a != nil && a["info_hash"] == string(ih[:]) {
					r["token"] = "tk"
					r["values"] = values
					answered++
				}
				mu.Unlock()
			}
			if q["q"] == "find_node" {
				continue // an answer without nodes makes the client ask again at once, for ever
			}
			dconn.WriteToUDP(model.Benc(map[string]any{"t": tid, "y": "r", "r": r}), from)
		}
	}()

	ses, err := torrent.NewSession(cfg)
	if err != nil {
		return core.Result{Inconcl: "session: " + err.Error()}
	}
	defer ses.Close()
	addTwin := func() (*torrent.Torrent, error) {
		return ses.AddURI("magnet:?xt=urn:btih:"+hex.EncodeToString(ih[:]), nil)
	}
	addPriv := func() (*torrent.Torrent, error) {
		t, err := ses.AddTorrent(bytes.NewReader(model.Benc(map[string]any{"info": model.Raw(string(infoBytes))})), &torrent.AddTorrentOptions{Stopped: c.PrivStopped})
		if err == nil && c.PrivStopped {
			err = t.Start()
		}
		return t, err
	}
	var priv, twin *torrent.Torrent
	if c.TwinFirst {
		twin, err = addTwin()
		if err == nil {
			priv, err = addPriv()
		}
	} else {
		priv, err = addPriv()
		if err == nil {
			twin, err = addTwin()
		}
	}
	if err != nil {
		return core.Failf("adding the torrents failed: %v", err)
	}
	if !priv.Stats().Private {
		return core.Result{Inconcl: "the client does not take this encoding as private"}
	}
	_ = twin
	// DHT requests are forwarded once per second
	deadline := time.Now().Add(6 * time.Second)
	for time.Now().Before(deadline) {
		mu.Lock()
		n := len(handshakes)
		mu.Unlock()
		if n > 0 {
			break
		}
		time.Sleep(50 * time.Millisecond)
	}
	time.Sleep(1200 * time.Millisecond)
	mu.Lock()
	defer mu.Unlock()
	res := core.Result{}
	lab := map[string]bool{}
	pub := 0
	for _, h := range handshakes {
		if h.prefix == privPrefix {
			return core.Failf("a listener whose address only the DHT node hands out received a handshake with the private torrent's peer id (%q...): the private torrent dialed a peer it was fed from the DHT (get_peers answered %d times; the magnet twin for the same info-hash did the asking)", h.prefix, answered)
		}
		pub++
	}
	if answered == 0 {
		res.Inconcl = fmt.Sprintf("the DHT node was never asked for this info-hash (%d get_peers in all)", getPeers)
	} else if pub == 0 {
		res.Inconcl = "control: the magnet twin never dialed the peers the DHT returned"
	} else {
		lab["dht-peers-reached-the-twin-only"] = true
		res.Nontrivial = true
	}
	if c.TwinFirst {
		lab["magnet-added-first"] = true
	}
	for k := range lab {
		res.Labels = append(res.Labels, k)
	}
	sort.Strings(res.Labels)
	return res
}

func TestDHTFeed(t *testing.T) { core.RunChild(t, "c19.dhtfeed", genFeed, runFeed, 60*time.Second) }
