package c19

import (
	"bytes"
	"crypto/sha1"
	"encoding/hex"
	"fmt"
	"net"
	"os"
	"strings"
	"sync"
	"testing"
	"time"

	"github.com/cenkalti/rain/v2/internal/logger"
	"github.com/cenkalti/rain/v2/internal/resumer/boltdbresumer"
	"github.com/cenkalti/rain/v2/torrent"
	"github.com/cenkalti/rain/v2/verifharness/core"
	"github.com/cenkalti/rain/v2/verifharness/model"
	"github.com/cenkalti/rain/v2/verifharness/refwire"
	"github.com/cenkalti/rain/v2/verifharness/sess"
	"github.com/cenkalti/rain/v2/verifharness/speer"
	"github.com/cenkalti/rain/v2/verifharness/sstore"
	"github.com/cenkalti/rain/v2/verifharness/strk"
	"go.etcd.io/bbolt"
	"pgregory.net/rapid"
)

func TestMain(m *testing.M) {
	if os.Getenv("VERIF_DEBUG") == "" {
		logger.Disable()
	}
	os.Exit(m.Run())
}

// PrivCase: one torrent observed twice, with the generated encoding of the private flag and with the flag absent.
type PrivCase struct {
	L        model.Layout `json:"layout"`
	Enc      string       `json:"private_encoding"` // bencoded value of the "private" key ("" = key absent)
	DHT      bool         `json:"dht_enabled"`
	PEX      bool         `json:"pex_enabled"`
	Magnet   bool         `json:"magnet"` // add by magnet; the metadata comes from a scripted peer
	PexFirst bool         `json:"pex_before_metadata"`
	Port     bool         `json:"send_port_message"`
	// RestartAfter (magnet only): after the observation the session is closed and opened again on the same database
	RestartAfter bool `json:"restart_after"`
	Restart      int  `json:"restart"` // 0 no; 1 session closed and reopened right after a started add; 2 after an add in stopped state
}

var encodings = []string{"i1e", "i1e", "i1e", "i2e", "i-1e", "1:1", "3:yes", "i0e", "1:0", "0:", "le", "de", "i99999999999999999999e", "l1:xe"}

func genPriv(t *rapid.T) PrivCase {
	c := PrivCase{L: model.GenLayout(t, model.LayoutOpts{MaxTotal: 64 << 10, MaxPieces: 8, MaxFiles: 3, NoPadding: true})}
	c.Enc = rapid.SampledFrom(encodings).Draw(t, "enc")
	c.DHT = rapid.IntRange(0, 4).Draw(t, "dht") != 0
	c.PEX = rapid.IntRange(0, 4).Draw(t, "pex") != 0
	c.Magnet = rapid.IntRange(0, 3).Draw(t, "magnet") == 0
	c.PexFirst = rapid.Bool().Draw(t, "pexFirst")
	c.Port = rapid.Bool().Draw(t, "port")
	if !c.Magnet {
		c.Restart = rapid.SampledFrom([]int{0, 0, 1, 2}).Draw(t, "restart")
	} else {
		c.RestartAfter = rapid.Bool().Draw(t, "restartAfter")
	}
	return c
}

type observed struct {
	statsPrivate  bool
	added         bool
	addErr        string
	pexDialed     int
	pexReceived   bool
	dhtQueries    int
	magnetErr     bool
	peerIDPrefix  string
	extVersion    string
	userAgent     string
	trkPeerID     string
	stoppedErr    string
	wrote         int
	metadataKnown bool
	// after a restart of the session (magnet cases with RestartAfter)
	infoPersisted     bool // the resume record holds an info dictionary
	metaAfterRestart  bool // the reloaded torrent knows its metadata
	wroteAfterRestart int
}

const (
	privPrefix = "-PV0001-"
	privVer    = "PrivClient 1"
	privUA     = "PrivUA/1"
)

func observe(c *PrivCase, enc string) (o observed, fail string) {
	l := &c.L
	F := l.Flat()
	d := l.InfoDict(F)
	delete(d, "private")
	if enc != "" {
		d["private"] = model.Raw(enc)
	}
	infoBytes := model.Benc(d)
	ihArr := sha1sum(infoBytes)
	dir, cleanup := sess.Scratch("c19")
	defer cleanup()
	cfg := sess.Config(dir)
	cfg.PEXEnabled = c.PEX
	cfg.DHTEnabled = c.DHT
	cfg.DHTHost = sess.IP(0)
	cfg.DHTPort = 17000
	cfg.PrivatePeerIDPrefix = privPrefix
	cfg.PrivateExtensionHandshakeClientVersion = privVer
	cfg.TrackerHTTPPrivateUserAgent = privUA
	prov := sstore.NewProvider()
	cfg.CustomStorage = prov
	// DHT stub: the only bootstrap router; it records queries and never answers
	var dmu sync.Mutex
	var dhtPackets [][]byte
	var dconn *net.UDPConn
	if c.DHT {
		ua, _ := net.ResolveUDPAddr("udp4", sess.IP(60)+":0")
		var err error
		dconn, err = net.ListenUDP("udp4", ua)
		if err != nil {
			panic(err)
		}
		defer dconn.Close()
		cfg.DHTBootstrapNodes = []string{dconn.LocalAddr().String()}
		go func() {
			buf := make([]byte, 4096)
			for {
				n, _, err := dconn.ReadFromUDP(buf)
				if err != nil {
					return
				}
				dmu.Lock()
				dhtPackets = append(dhtPackets, append([]byte(nil), buf[:n]...))
				dmu.Unlock()
			}
		}()
	}
	trk, err := strk.NewHTTP(sess.IP(50)+":0", func(n int, r strk.HTTPReq) []byte {
		return strk.OKResponse(model.Benc(map[string]any{"interval": int64(1800), "peers": ""}))
	})
	if err != nil {
		panic(err)
	}
	defer trk.Close()
	ses, err := torrent.NewSession(cfg)
	if err != nil {
		return o, "session: " + err.Error()
	}
	defer func() { ses.Close() }() // closes whichever session is current
	// a listener whose address is only ever mentioned in a PEX message
	l2, err := net.Listen("tcp4", sess.IP(5)+":0")
	if err != nil {
		panic(err)
	}
	defer l2.Close()
	var l2n int
	go func() {
		for {
			conn, err := l2.Accept()
			if err != nil {
				return
			}
			dmu.Lock()
			l2n++
			dmu.Unlock()
			conn.Close()
		}
	}()
	var tor *torrent.Torrent
	mi := model.Benc(map[string]any{"info": model.Raw(infoBytes), "announce": trk.URL()})
	if c.Magnet {
		tor, err = ses.AddURI("magnet:?xt=urn:btih:"+hex.EncodeToString(ihArr[:])+"&tr="+trk.URL(), nil)
	} else {
		tor, err = ses.AddTorrent(bytes.NewReader(mi), &torrent.AddTorrentOptions{Stopped: c.Restart == 2})
	}
	if err != nil {
		o.addErr = err.Error()
		return o, ""
	}
	o.added = true
	if c.Restart != 0 {
		// the identity of a private torrent must survive a restart of the session
		id := tor.ID()
		if err := ses.Close(); err != nil {
			return o, "close: " + err.Error()
		}
		ses2, err := torrent.NewSession(cfg)
		if err != nil {
			ses, _ = torrent.NewSession(sess.Config(dir + "/x")) // keep the deferred Close valid
			return o, "reopen: " + err.Error()
		}
		ses = ses2
		tor = ses.GetTorrent(id)
		if tor == nil {
			return o, "torrent missing after reopen"
		}
		_ = tor.Start()
	}
	clientAddr := fmt.Sprintf("%s:%d", sess.IP(0), tor.Port())
	mk := func(k int, pex bool) speer.Opts {
		var id [20]byte
		copy(id[:], fmt.Sprintf("-SP0001-%012d", k))
		return speer.Opts{InfoHash: ihArr, PeerID: id, Fast: true, Ext: true, AdvertisePex: pex, MetadataSize: int64(len(infoBytes)), Reqq: 250}
	}
	dial := func(k int, pex bool) *speer.Peer {
		for try := 0; try < 40; try++ {
			p, err := speer.Dial(sess.IP(k), clientAddr, mk(k, pex), 2*time.Second)
			if err == nil {
				return p
			}
			if !strings.Contains(err.Error(), "refused") {
				return nil
			}
			time.Sleep(25 * time.Millisecond)
		}
		return nil
	}
	pexMsg := func(p *speer.Peer) {
		ta := l2.Addr().(*net.TCPAddr)
		compact := append(append([]byte(nil), ta.IP.To4()...), byte(ta.Port>>8), byte(ta.Port))
		id := 2 // the client's ut_pex id
		if v, ok := p.ClientM["ut_pex"]; ok {
			id = v
		}
		p.Send(refwire.Msg{Kind: "ext-pex", ExtID: uint8(id), Added: compact})
	}
	// peer A: plain peer (and metadata source for magnets)
	a := dial(1, false)
	if a == nil {
		return o, "scripted peer A cannot connect"
	}
	defer a.Close()
	var b *speer.Peer
	if c.Magnet && c.PexFirst {
		// PEX arrives while the metadata is still unknown
		b = dial(2, true)
		if b != nil {
			defer b.Close()
			b.Barrier(2 * time.Second)
			pexMsg(b)
		}
	}
	// A has no pieces: the torrent must stay incomplete (a complete torrent dials nobody, which would blind the PEX observation)
	srv := speer.Serve(a, speer.Behaviour{Have: make([]bool, l.NumPieces())}, F, int(l.PieceLength), infoBytes)
	_ = srv
	if c.Magnet {
		select {
		case <-tor.NotifyMetadata():
			o.metadataKnown = true
		case err := <-tor.NotifyStop():
			if err != nil {
				o.stoppedErr = err.Error()
			}
		case <-time.After(5 * time.Second):
		}
	}
	if b == nil {
		b = dial(2, true)
		if b != nil {
			defer b.Close()
		}
	}
	if b != nil && !b.Closed() {
		b.Barrier(2 * time.Second)
		pexMsg(b)
		if c.Port {
			b.Send(refwire.Msg{Kind: "port", Port: 6881})
		}
		b.Barrier(2 * time.Second)
	}
	tor.Announce()                      // a manual announce must not reach the DHT either
	time.Sleep(2500 * time.Millisecond) // DHT requests are forwarded once per second; PEX dials are immediate
	st := tor.Stats()
	o.statsPrivate = st.Private
	if st.Error != nil && o.stoppedErr == "" {
		o.stoppedErr = st.Error.Error()
	}
	dmu.Lock()
	o.pexDialed = l2n
	for _, p := range dhtPackets {
		if bytes.Contains(p, ihArr[:]) {
			o.dhtQueries++
		}
	}
	dmu.Unlock()
	if b != nil {
		for _, e := range b.Log() {
			if !e.Out && e.Msg.Kind == "ext-pex" {
				o.pexReceived = true
			}
		}
		o.peerIDPrefix = string(b.ClientID[:8])
		o.extVersion = b.ClientV
	} else {
		o.peerIDPrefix = string(a.ClientID[:8])
		o.extVersion = a.ClientV
	}
	_, merr := tor.Magnet()
	o.magnetErr = merr != nil
	for _, r := range trk.Requests() {
		o.userAgent = r.UserAgent
		o.trkPeerID = string(r.Params["peer_id"])
	}
	for _, m := range prov.ByID {
		o.wrote = len(m.Writes())
	}
	if c.Magnet && c.RestartAfter {
		id := tor.ID()
		if err := ses.Close(); err != nil {
			return o, "close: " + err.Error()
		}
		if db, err := bbolt.Open(cfg.Database, 0o600, &bbolt.Options{Timeout: 2 * time.Second, NoSync: true}); err == nil {
			if rs, err := boltdbresumer.New(db, []byte("torrents")); err == nil {
				if sp, err := rs.Read(id); err == nil {
					o.infoPersisted = len(sp.Info) > 0
				}
			}
			db.Close()
		}
		cfg2 := cfg
		cfg2.ResumeOnStartup = true
		ses2, err := torrent.NewSession(cfg2)
		if err != nil {
			ses, _ = torrent.NewSession(sess.Config(dir + "/x")) // keep the deferred Close valid
			return o, "reopen: " + err.Error()
		}
		ses = ses2
		if t2 := ses.GetTorrent(id); t2 != nil {
			_ = t2.Start()
			time.Sleep(700 * time.Millisecond)
			st := t2.Stats()
			o.metaAfterRestart = st.Pieces.Total > 0
		}
		for _, m := range prov.ByID {
			o.wroteAfterRestart = len(m.Writes()) - o.wrote
		}
	}
	return o, ""
}

func runPriv(c PrivCase) core.Result {
	res := core.Result{Labels: []string{"enc=" + c.Enc}}
	o, fail := observe(&c, c.Enc)
	if fail != "" {
		return core.Result{Inconcl: fail}
	}
	ctl, fail := observe(&c, "")
	if fail != "" {
		return core.Result{Inconcl: fail}
	}
	if !o.added {
		res.Labels = append(res.Labels, "rejected")
		return res
	}
	// BEP 27: the unambiguous encodings
	if c.Enc == "i1e" && !c.Magnet && !o.statsPrivate {
		return core.Failf("metainfo with private=1 is not reported as private")
	}
	if ctl.statsPrivate {
		return core.Failf("metainfo without a private key is reported as private")
	}
	// every other encoding of the flag: a key that is present marks the torrent private unless its value is the integer
	// 0 or the strings "" / "0" - odd types (lists, dictionaries, integers beyond 64 bits) included, the safe side
	if marked := c.Enc != "" && c.Enc != "i0e" && c.Enc != "1:0" && c.Enc != "0:"; !c.Magnet && o.added && o.statsPrivate != marked {
		return core.Failf("metainfo with private=%s is reported as private=%v, want %v", c.Enc, o.statsPrivate, marked)
	}
	// control: the observation channels must be live, otherwise the private run proves nothing
	if !c.Magnet || ctl.metadataKnown {
		if c.PEX && ctl.pexDialed == 0 {
			return core.Result{Inconcl: "control run: address received by PEX was not dialed", Labels: res.Labels}
		}
		if c.PEX && !ctl.pexReceived && !(c.Magnet && c.PexFirst) {
			return core.Result{Inconcl: "control run: no ut_pex message received", Labels: res.Labels}
		}
		if c.DHT && ctl.dhtQueries == 0 {
			return core.Result{Inconcl: "control run: no DHT query seen", Labels: res.Labels}
		}
		if ctl.magnetErr {
			return core.Failf("a public torrent does not export a magnet link")
		}
	}
	if c.Magnet {
		// metadata that turns out to be private must be refused
		privateMeta := c.Enc == "i1e" // the client's classification is not observable for a refused torrent; assert the unambiguous encoding only
		if privateMeta {
			res.Labels = append(res.Labels, "magnet-private")
			if o.stoppedErr == "" {
				return core.Failf("a magnet-added torrent whose metadata is private (private=1) was not refused (no error; metadata adopted: %v)", o.metadataKnown)
			}
			if o.wrote > 0 {
				return core.Failf("a magnet-added torrent whose metadata is private downloaded data (%d storage writes)", o.wrote)
			}
			if c.RestartAfter {
				res.Labels = append(res.Labels, "magnet-private-restart")
				if o.infoPersisted || o.metaAfterRestart || o.wroteAfterRestart > 0 {
					return core.Failf("private metadata fetched through a magnet link was refused (%q), but it was kept: after a restart of the session the resume record holds an info dictionary: %v, the torrent knows its metadata: %v, storage writes: %d",
						o.stoppedErr, o.infoPersisted, o.metaAfterRestart, o.wroteAfterRestart)
				}
			}
			res.Nontrivial = true
			return res
		}
		if !o.statsPrivate {
			return res
		}
	}
	if !o.statsPrivate {
		res.Labels = append(res.Labels, "public-by-classification")
		return res
	}
	res.Labels = append(res.Labels, "private")
	res.Nontrivial = true
	if o.pexDialed > 0 {
		return core.Failf("private torrent (private=%s): an address learned only from a peer-exchange message was dialed (%d connections)", c.Enc, o.pexDialed)
	}
	if o.pexReceived {
		return core.Failf("private torrent (private=%s): the client sent a ut_pex message", c.Enc)
	}
	if o.dhtQueries > 0 {
		return core.Failf("private torrent (private=%s): %d DHT queries carrying its info-hash reached the bootstrap node", c.Enc, o.dhtQueries)
	}
	if !o.magnetErr {
		return core.Failf("private torrent (private=%s): Magnet() exported a link", c.Enc)
	}
	if o.peerIDPrefix != privPrefix {
		return core.Failf("private torrent: handshake peer id starts with %q, configured private prefix is %q", o.peerIDPrefix, privPrefix)
	}
	if o.extVersion != privVer {
		return core.Failf("private torrent: extension handshake version %q, configured private version is %q", o.extVersion, privVer)
	}
	if o.userAgent != privUA || !strings.HasPrefix(o.trkPeerID, privPrefix) {
		return core.Failf("private torrent: tracker saw User-Agent %q and peer id %q, configured private values are %q / %q", o.userAgent, o.trkPeerID, privUA, privPrefix)
	}
	return res
}

func TestPrivate(t *testing.T) { core.RunChild(t, "c19.private", genPriv, runPriv, 90*time.Second) }

func sha1sum(b []byte) [20]byte { return sha1.Sum(b) }
