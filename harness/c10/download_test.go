package c10

import (
	"bytes"
	"encoding/hex"
	"fmt"
	"net"
	"os"
	"strings"
	"sync"
	"sync/atomic"
	"testing"
	"time"

	"github.com/cenkalti/rain/v2/internal/logger"
	"github.com/cenkalti/rain/v2/torrent"
	"github.com/cenkalti/rain/v2/verifharness/core"
	"github.com/cenkalti/rain/v2/verifharness/model"
	"github.com/cenkalti/rain/v2/verifharness/refmse"
	"github.com/cenkalti/rain/v2/verifharness/sess"
	"github.com/cenkalti/rain/v2/verifharness/speer"
	"github.com/cenkalti/rain/v2/verifharness/sstore"
	"github.com/cenkalti/rain/v2/verifharness/strk"
	"pgregory.net/rapid"
)

func TestMain(m *testing.M) {
	if os.Getenv("VERIF_DEBUG") == "" {
		logger.Disable()
	} else if os.Getenv("VERIF_DEBUG") == "2" {
		logger.SetDebug()
	}
	os.Exit(m.Run())
}

// DLCase: one download with at least one honest full source.
type DLCase struct {
	L          model.Layout      `json:"layout"`
	Sequential bool              `json:"sequential"`
	Magnet     bool              `json:"magnet"`
	SeedPeer   bool              `json:"seed_peer"`    // honest scripted seeder present
	SeedDials  bool              `json:"seed_dials"`   // honest seeder dials the client (else the client dials it)
	SeedFast   bool              `json:"seed_fast"`    // honest seeder supports the fast extension
	SeedMSE    int               `json:"seed_mse"`     // 0 plaintext, 1 MSE offering both / selecting what is offered, 2 RC4 only
	WebSeed    bool              `json:"web_seed"`     // honest web seed present
	Nuisance   []speer.Behaviour `json:"nuisance"`     // other peers
	BadWebSeed int               `json:"bad_web_seed"` // 0 none, 1 corrupting, 2 truncating, 3 404
	Enc        int               `json:"enc"`          // client policy: 0 default, 1 disable outgoing, 2 force outgoing, 3 force incoming, 4 force both
	ReqOut     int               `json:"max_requests_out"`
	// Liar: before the client learns the honest seeder's address, a peer without any piece tells it in its extension
	// handshake that this very address is the client's own ("yourip")
	Liar       bool `json:"yourip_liar"`
	EndgameMax int  `json:"endgame_max"`
	// WSStall: the honest web seed is slow — its Nth response pauses for Ms after AtByte body bytes (only with an
	// honest seeding peer next to it and no bad web seed): the idle-seeder clause is then judged during the pause
	WSStall *WSStall `json:"ws_stall,omitempty"`
}

type WSStall struct {
	Nth    int `json:"nth"`
	AtByte int `json:"at_byte"`
	Ms     int `json:"ms"`
}

func genDL(t *rapid.T) DLCase {
	c := DLCase{L: model.GenLayout(t, model.LayoutOpts{MaxTotal: 600 << 10, MaxPieces: 96, MaxFiles: 6})}
	c.Sequential = rapid.Bool().Draw(t, "sequential")
	c.Magnet = rapid.IntRange(0, 3).Draw(t, "magnet") == 0
	switch rapid.IntRange(0, 3).Draw(t, "sources") {
	case 0:
		c.SeedPeer = true
	case 1:
		c.WebSeed = true
	default:
		c.SeedPeer, c.WebSeed = true, true
	}
	if c.Magnet {
		c.SeedPeer = true // metadata can only come from a peer
	}
	c.SeedDials = rapid.Bool().Draw(t, "seedDials")
	c.SeedFast = rapid.Bool().Draw(t, "seedFast")
	c.SeedMSE = rapid.IntRange(0, 2).Draw(t, "seedMSE")
	c.Enc = rapid.SampledFrom([]int{0, 0, 1, 2, 3, 4}).Draw(t, "enc")
	// keep the honest seeder compatible with the client's encryption policy (the property assumes it is reachable)
	if (c.Enc == 2 || c.Enc == 4) && !c.SeedDials && c.SeedMSE == 0 {
		c.SeedMSE = 1
	}
	if (c.Enc == 3 || c.Enc == 4) && c.SeedDials && c.SeedMSE == 0 {
		c.SeedMSE = 2
	}
	if c.Enc == 1 && !c.SeedDials {
		// client dials in plaintext only: a scripted listener accepts both, nothing to adjust
	}
	n := rapid.IntRange(0, 3).Draw(t, "nNuisance")
	for i := 0; i < n; i++ {
		var b speer.Behaviour
		switch rapid.IntRange(0, 9).Draw(t, "nk") {
		case 7:
			// serves a few blocks, chokes, unchokes at once, and never answers again (connected and unchoking)
			b.ChokeAfter, b.ChokeMs = rapid.IntRange(1, 3).Draw(t, "ca2"), rapid.SampledFrom([]int{1, 20}).Draw(t, "cms2")
			b.StallAfter, b.StallMs = b.ChokeAfter, 120000
		case 9:
			// never unchokes but grants a few pieces as allowed-fast; serves them, or turns some of the requests down once
			b.NeverUnchoke = true
			for k := rapid.IntRange(1, 4).Draw(t, "naf"); k > 0; k-- {
				b.AllowedFast = append(b.AllowedFast, rapid.IntRange(0, c.L.NumPieces()-1).Draw(t, "af"))
			}
			b.RejectEvery = rapid.IntRange(0, 2).Draw(t, "afre")
		case 8:
			// unchoking fast peer that turns down some requests once (a reject that crossed its own unchoke)
			b.RejectEvery = rapid.IntRange(1, 4).Draw(t, "re")
		case 0:
			b.NeverUnchoke = true
		case 1:
			b.ChokeAfter, b.ChokeMs = rapid.IntRange(1, 5).Draw(t, "ca"), rapid.SampledFrom([]int{1, 20, 200, 120000}).Draw(t, "cms") // 120000: chokes for good while it may hold a piece
		case 2:
			b.DisconnectAfter = rapid.IntRange(1, 6).Draw(t, "da")
		case 3:
			b.StallAfter, b.StallMs = rapid.IntRange(0, 4).Draw(t, "sa"), rapid.SampledFrom([]int{50, 500, 4000, 120000}).Draw(t, "sms") // 120000: goes silent for good (unchoked, connected)
		case 4:
			b.CorruptBlocks = []int{rapid.IntRange(0, 5).Draw(t, "cb")}
		case 5:
			b.CorruptAll = true
		default:
			b.DuplicateEvery = rapid.IntRange(1, 3).Draw(t, "de")
		}
		np := c.L.NumPieces()
		if rapid.Bool().Draw(t, "partial") {
			b.Have = make([]bool, np)
			for j := range b.Have {
				b.Have[j] = rapid.Bool().Draw(t, "hv")
			}
		}
		c.Nuisance = append(c.Nuisance, b)
	}
	if c.WebSeed || rapid.IntRange(0, 3).Draw(t, "bws") == 0 {
		c.BadWebSeed = rapid.IntRange(0, 3).Draw(t, "badws")
	}
	if c.SeedPeer && c.WebSeed && c.BadWebSeed == 0 && !c.Magnet && rapid.IntRange(0, 2).Draw(t, "wsstall") != 0 {
		c.WSStall = &WSStall{Nth: rapid.IntRange(1, 2).Draw(t, "wsnth"), AtByte: rapid.SampledFrom([]int{0, 1, 100, 20000}).Draw(t, "wsat"), Ms: 4000}
	}
	c.ReqOut = rapid.SampledFrom([]int{1, 2, 8, 250}).Draw(t, "reqout")
	c.EndgameMax = rapid.SampledFrom([]int{1, 2, 20}).Draw(t, "endgame")
	c.Liar = c.SeedPeer && !c.SeedDials && rapid.IntRange(0, 3).Draw(t, "liar") == 0
	return c
}

func webFiles(l *model.Layout, F []byte) map[string][]byte {
	files := map[string][]byte{}
	offs := l.FileOffsets()
	for i, f := range l.Files {
		if f.Pad != 0 {
			continue
		}
		files["/"+l.ExpectedPath(i)] = F[offs[i] : offs[i]+f.Length]
	}
	return files
}

func mseOpts(kind int, initiator bool) *refmse.Opts {
	if kind == 0 {
		return nil
	}
	o := &refmse.Opts{Pad1: 13, Pad2: 7, Secret: []byte{1, 2, 3, 4, 5, 6, 7, 8, 9, 10, 11, 12, 13, 14, 15, 16, 17, 18, 19, 20}}
	if initiator {
		o.Provide = 3
		if kind == 2 {
			o.Provide = 2
		}
	} else {
		o.Select = func(p uint32) uint32 {
			if p&2 != 0 {
				return 2
			}
			if kind == 2 {
				return 0
			}
			return p & 1
		}
	}
	return o
}

func runDL(c DLCase) core.Result {
	t0 := time.Now()
	l := &c.L
	F := l.Flat()
	ih := l.InfoHash(F)
	infoBytes := l.InfoBytes(F)
	res := core.Result{Labels: l.Labels()}
	dir, cleanup := sess.Scratch("c10")
	defer cleanup()
	cfg := sess.Config(dir)
	prov := sstore.NewProvider()
	cfg.CustomStorage = prov
	cfg.MaxRequestsOut = c.ReqOut
	cfg.DefaultRequestsOut = min(c.ReqOut, 50)
	cfg.EndgameMaxDuplicateDownloads = c.EndgameMax
	switch c.Enc {
	case 1:
		cfg.DisableOutgoingEncryption = true
	case 2:
		cfg.ForceOutgoingEncryption = true
	case 3:
		cfg.ForceIncomingEncryption = true
	case 4:
		cfg.ForceOutgoingEncryption, cfg.ForceIncomingEncryption = true, true
	}
	if c.WSStall != nil {
		cfg.WebseedResponseBodyReadTimeout = time.Duration(c.WSStall.Ms+3000) * time.Millisecond
	}
	ses, err := torrent.NewSession(cfg)
	if err != nil {
		return core.Result{Inconcl: "session: " + err.Error()}
	}
	defer ses.Close()
	// Was this process descheduled for long stretches (a 50 ms tick that took over 0.4 s)? Timeouts of the client or of
	// the scripted peers are only excused as "machine too loaded" when that was observed during the case.
	var frozen atomic.Int32
	stopMon := make(chan struct{})
	defer close(stopMon)
	go func() {
		last := time.Now()
		for {
			select {
			case <-stopMon:
				return
			case <-time.After(50 * time.Millisecond):
			}
			if time.Since(last) > 400*time.Millisecond {
				frozen.Add(1)
			}
			last = time.Now()
		}
	}()

	// web seeds
	var urls []string
	var good, bad *strk.WebSeed
	if c.WebSeed {
		good, err = strk.NewWebSeed(sess.IP(40)+":0", webFiles(l, F))
		if err != nil {
			panic(err)
		}
		defer good.Close()
		if c.WSStall != nil {
			good.StallNth, good.StallAtByte, good.StallBodyMs = c.WSStall.Nth, c.WSStall.AtByte, c.WSStall.Ms
		}
		urls = append(urls, good.URL())
	}
	if c.BadWebSeed != 0 {
		bad, err = strk.NewWebSeed(sess.IP(41)+":0", webFiles(l, F))
		if err != nil {
			panic(err)
		}
		defer bad.Close()
		switch c.BadWebSeed {
		case 1:
			bad.CorruptEveryN = 2
		case 2:
			bad.TruncateAt = 100
		case 3:
			bad.Status = 404
		}
		urls = append([]string{bad.URL()}, urls...)
	}
	if l.Single {
		// single-file torrents: the URL is the file itself unless it ends with a slash (then the name is appended)
	}
	// scripted listeners for peers the client dials
	type lst struct {
		ln net.Listener
		b  speer.Behaviour
		o  speer.Opts
	}
	var listeners []lst
	var peerAddrs []string
	mkOpts := func(k int, fast bool, mse *refmse.Opts) speer.Opts {
		var id [20]byte
		copy(id[:], fmt.Sprintf("-SP0001-%012d", k))
		return speer.Opts{InfoHash: ih, PeerID: id, Fast: fast, Ext: true, MSE: mse, MSEOptional: true, MetadataSize: int64(len(infoBytes)), Reqq: 250}
	}
	servers := make(chan *speer.Server, 16)
	var allMu sync.Mutex
	var allServers []*speer.Server
	var acceptErrs []string // handshakes that failed at a scripted listener (the client's first attempt with the other cipher policy fails by design)
	track := func(s *speer.Server) *speer.Server {
		if s != nil {
			allMu.Lock()
			allServers = append(allServers, s)
			allMu.Unlock()
		}
		return s
	}
	if c.SeedPeer && !c.SeedDials {
		ln, err := net.Listen("tcp4", sess.IP(1)+":0")
		if err != nil {
			panic(err)
		}
		defer ln.Close()
		listeners = append(listeners, lst{ln, speer.Behaviour{}, mkOpts(1, c.SeedFast, mseOpts(max(c.SeedMSE, 1), false))})
		peerAddrs = append(peerAddrs, ln.Addr().String())
	}
	for i, b := range c.Nuisance {
		if i%2 == 0 { // listens
			ln, err := net.Listen("tcp4", sess.IP(10+i)+":0")
			if err != nil {
				panic(err)
			}
			defer ln.Close()
			listeners = append(listeners, lst{ln, b, mkOpts(10+i, i%3 != 0 || b.RejectEvery > 0 || len(b.AllowedFast) > 0, mseOpts(1, false))})
			peerAddrs = append(peerAddrs, ln.Addr().String())
		}
	}
	var honest *speer.Server
	honestC := make(chan *speer.Server, 4)
	for _, L := range listeners {
		L := L
		go func() {
			for {
				conn, err := L.ln.Accept()
				if err != nil {
					return
				}
				go func() {
					o := L.o
					if o.MSE != nil {
						// the client may fall back to a plaintext retry: peek is not possible with the reference endpoint, so
						// a listener with MSE enabled accepts only MSE (the client's first attempt when encryption is enabled)
					}
					p, err := speer.Accept(conn, o, 10*time.Second)
					if err != nil {
						allMu.Lock()
						acceptErrs = append(acceptErrs, err.Error())
						allMu.Unlock()
						return
					}
					s := track(speer.Serve(p, L.b, F, int(l.PieceLength), infoBytes))
					if L.b.Honest() && L.b.Have == nil && !L.b.NeverUnchoke && L.b.DisconnectAfter == 0 && L.b.StallMs == 0 && L.b.ChokeAfter == 0 && L.b.DuplicateEvery == 0 && L.b.RejectEvery == 0 {
						honestC <- s
					}
					servers <- s
				}()
			}
		}()
	}

	// add the torrent
	var tor *torrent.Torrent
	opt := &torrent.AddTorrentOptions{Sequential: c.Sequential, Stopped: true}
	if c.Magnet {
		link := "magnet:?xt=urn:btih:" + hex.EncodeToString(ih[:])
		tor, err = ses.AddURI(link, opt)
	} else {
		tor, err = ses.AddTorrent(bytes.NewReader(l.Metainfo(F, nil, urls)), opt)
	}
	if err != nil {
		return core.Failf("adding a valid torrent failed: %v", err)
	}
	if err := tor.Start(); err != nil {
		return core.Failf("start: %v", err)
	}
	if c.Liar {
		// a peer with no pieces claims that the honest seeder's address is the client's own
		var id [20]byte
		copy(id[:], "-LI0001-yourip-liar0")
		lo := speer.Opts{InfoHash: ih, PeerID: id, Fast: true, Ext: true, MetadataSize: int64(len(infoBytes)), Reqq: 250, YourIP: net.ParseIP(sess.IP(1)).To4()}
		var lp *speer.Peer
		for try := 0; try < 40; try++ {
			lp, err = speer.Dial(sess.IP(30), fmt.Sprintf("%s:%d", sess.IP(0), tor.Port()), lo, 2*time.Second)
			if err == nil || !strings.Contains(err.Error(), "refused") {
				break
			}
			time.Sleep(25 * time.Millisecond)
		}
		if err == nil {
			defer lp.Close()
			speer.Serve(lp, speer.Behaviour{Have: make([]bool, l.NumPieces())}, F, int(l.PieceLength), infoBytes)
			lp.Barrier(2 * time.Second)
			res.Labels = append(res.Labels, "yourip-liar")
		}
	}
	for _, a := range peerAddrs {
		if err := tor.AddPeer(a); err != nil {
			return core.Failf("AddPeer(%s): %v", a, err)
		}
	}
	port := tor.Port()
	clientAddr := fmt.Sprintf("%s:%d", sess.IP(0), port)
	// peers that dial the client
	lastDialErr := ""
	dial := func(k int, b speer.Behaviour, fast bool, mse *refmse.Opts) *speer.Server {
		var p *speer.Peer
		var err error
		slow := 0
		for try := 0; try < 40; try++ {
			p, err = speer.Dial(sess.IP(k), clientAddr, mkOpts(k, fast, mse), time.Duration(2+4*slow)*time.Second)
			if err != nil && slow < 2 && (strings.Contains(err.Error(), "timeout") || strings.Contains(err.Error(), "deadline")) {
				slow++ // a handshake that timed out (loaded machine): try again with more time
				continue
			}
			if err != nil && slow < 2 && frozen.Load() > 0 && (strings.Contains(err.Error(), "EOF") || strings.Contains(err.Error(), "reset")) {
				slow++ // the process was descheduled meanwhile: the client's own 3 s handshake timeout has closed the connection
				continue
			}
			if err == nil || !strings.Contains(err.Error(), "refused") {
				break // otherwise only retry while the client's listener is not up yet
			}
			time.Sleep(25 * time.Millisecond)
		}
		if err != nil {
			lastDialErr = err.Error()
			return nil
		}
		return track(speer.Serve(p, b, F, int(l.PieceLength), infoBytes))
	}
	if c.SeedPeer && c.SeedDials {
		honest = dial(1, speer.Behaviour{}, c.SeedFast, mseOpts(c.SeedMSE, true))
		if honest == nil {
			if frozen.Load() > 0 && (strings.Contains(lastDialErr, "timeout") || strings.Contains(lastDialErr, "deadline") || strings.Contains(lastDialErr, "EOF") || strings.Contains(lastDialErr, "reset")) {
				// three handshakes with 2, 6 and 10 s timed out: the machine is too loaded for this case to say anything
				res.Inconcl = "the honest seeder's handshake with the client timed out (or was closed by the client's own handshake timeout) three times while the process was being descheduled: " + lastDialErr
				return res
			}
			return core.Failf("the honest seeder could not connect to the client at %s (policy %d, seeder mse %d): %s", clientAddr, c.Enc, c.SeedMSE, lastDialErr)
		}
	}
	for i, b := range c.Nuisance {
		if i%2 == 1 {
			var m *refmse.Opts
			if c.Enc == 3 || c.Enc == 4 {
				m = mseOpts(2, true)
			}
			dial(10+i, b, i%3 != 0 || b.RejectEvery > 0 || len(b.AllowedFast) > 0, m)
		}
	}

	// "No idle, unchoked peer holding a needed and unrequested piece is left without a request", decided where every
	// request is visible to the harness: downloads from peers only (what the client has assigned to a web seed cannot
	// be seen from outside). Judged over a window of 2.5 s in which the honest seeder is connected, unchoking, sees the
	// client interested and has no request outstanding: a piece that is still incomplete on storage at the end of the
	// window and for which no scripted peer holds an unanswered request or received one during the window was needed
	// and unrequested all along.
	var judged atomic.Bool
	var starved atomic.Int32
	idleViolation := make(chan string, 1)
	stopWatch := make(chan struct{})
	defer close(stopWatch)
	wsMode := c.SeedPeer && c.WebSeed && c.BadWebSeed == 0 && c.WSStall != nil && !c.Magnet
	// a magnet link carries no web seed address: for the client such a case is a download from peers alone
	if (c.SeedPeer && (c.Magnet || (!c.WebSeed && c.BadWebSeed == 0))) || wsMode {
		fileStart := map[string]int64{}
		for i, o := range l.FileOffsets() {
			if i < len(l.Files) {
				fileStart["/"+l.ExpectedPath(i)] = o
			}
		}
		go func() {
			const window = 2500 * time.Millisecond
			var since time.Time
			lastTick := time.Now()
			for {
				select {
				case <-stopWatch:
					return
				case <-time.After(100 * time.Millisecond):
				}
				// the window measures what the client does in 2.5 s of running, not of being descheduled: when this loop,
				// which lives in the client's process, was itself held up (a tick took over 0.4 s instead of 0.1 s), the
				// process did not run and the window starts again
				if gap := time.Since(lastTick); gap > 400*time.Millisecond {
					since = time.Time{}
					starved.Add(1)
				}
				lastTick = time.Now()
				allMu.Lock()
				srv := append([]*speer.Server(nil), allServers...)
				allMu.Unlock()
				var h *speer.Server
				for _, s := range srv {
					if s.B.Honest() && s.B.Have == nil && !s.B.NeverUnchoke && s.B.DisconnectAfter == 0 && s.B.StallMs == 0 && s.B.ChokeAfter == 0 && s.B.DuplicateEvery == 0 && s.B.RejectEvery == 0 && !s.P.Closed() {
						h = s
					}
				}
				idle := false
				if h != nil && tor.Stats().Status == torrent.Downloading {
					_, _, outstanding, unchoked, interested, lastReq := h.Snapshot()
					// idle for the whole window: nothing outstanding now and no request since the window began
					idle = outstanding == 0 && unchoked && interested && (since.IsZero() || lastReq.Before(since))
				}
				var wsBusy []strk.WSProgress
				if idle && wsMode {
					// the web seed's transfer must sit in its pause for the whole window: what the client has assigned
					// to the web seed beyond the bytes handed out is invisible, what it can be reading is not
					var last time.Time
					wsBusy, last = good.InFlight()
					stalled := len(wsBusy) > 0
					for _, p := range wsBusy {
						if !p.Stalled {
							stalled = false
						}
					}
					idle = stalled && (since.IsZero() || last.Before(since))
				}
				if !idle {
					since = time.Time{}
					continue
				}
				if since.IsZero() {
					since = time.Now()
					continue
				}
				if time.Since(since) < window {
					continue
				}
				// pieces touched by any request that is unanswered or arrived during the window
				touched := map[uint32]bool{}
				for _, s := range srv {
					open := map[[3]uint32]time.Time{}
					for _, ev := range s.P.Log() {
						m := ev.Msg
						key := [3]uint32{m.Index, m.Begin, m.Length}
						switch {
						case !ev.Out && m.Kind == "request":
							open[key] = ev.At
							if !ev.At.Before(since) {
								touched[m.Index] = true
							}
						case !ev.Out && m.Kind == "cancel":
							delete(open, key)
						case ev.Out && m.Kind == "piece":
							delete(open, [3]uint32{m.Index, m.Begin, uint32(len(m.Data))})
							if !ev.At.Before(since) {
								touched[m.Index] = true
							}
						case ev.Out && m.Kind == "reject":
							delete(open, key)
						}
					}
					if !s.P.Closed() { // the unanswered requests of a peer that is gone are void
						for k := range open {
							touched[k[0]] = true
						}
					}
				}
				judged.Store(true)
				wsNote := ""
				for _, p := range wsBusy {
					// the piece the web seed transfer is reading lies between its first byte and the last byte handed out
					g0 := fileStart[p.Path] + p.Start
					g1 := g0 + p.Written
					for pi := g0 / int64(l.PieceLength); pi <= g1/int64(l.PieceLength); pi++ {
						touched[uint32(pi)] = true
					}
					wsNote = fmt.Sprintf(" and the honest web seed's only transfer sat in a pause after %d bytes of %q (pieces %d-%d, which are not counted)", p.Written, p.Path, g0/int64(l.PieceLength), g1/int64(l.PieceLength))
				}
				var snap map[string][]byte
				for _, m := range prov.ByID {
					snap = m.Snapshot()
				}
				offs := l.FileOffsets()
				mask := l.PadMask()
				for pi := 0; pi < l.NumPieces(); pi++ {
					if touched[uint32(pi)] {
						continue
					}
					complete := true
					for b := pi * int(l.PieceLength); b < min((pi+1)*int(l.PieceLength), len(F)) && complete; b++ {
						if mask[b] {
							continue
						}
						fi := 0
						for fi+1 < len(offs) && offs[fi+1] <= int64(b) {
							fi++
						}
						data := snap[l.ExpectedPath(fi)]
						o := int64(b) - offs[fi]
						if o >= int64(len(data)) || data[o] != F[b] {
							complete = false
						}
					}
					if !complete && time.Since(since) >= window && tor.Stats().Status == torrent.Downloading {
						select {
						case idleViolation <- fmt.Sprintf("IDLE: for %v the honest seeder (holding every piece) was connected, unchoking, saw the client interested and had no request outstanding, while piece %d was incomplete on storage and no peer held or received a request for it%s",
							time.Since(since).Round(100*time.Millisecond), pi, wsNote):
						default:
						}
						return
					}
				}
				since = time.Time{}
			}
		}()
	}
	deadline := time.After(25 * time.Second)
	completed := false
	select {
	case <-tor.NotifyComplete():
		completed = true
	case err := <-tor.NotifyStop():
		return core.Failf("torrent stopped by itself with an honest full source reachable: %v", err)
	case <-deadline:
	}
	if honest == nil {
		select {
		case honest = <-honestC:
		default:
		}
	}
	select {
	case v := <-idleViolation:
		return core.Failf("%s", v)
	default:
	}
	nontrivial := len(l.Files) >= 2 || len(c.Nuisance) > 0 || c.Magnet || c.Enc != 0 || c.SeedMSE != 0 || c.BadWebSeed != 0
	for _, lb := range l.Labels() {
		if lb == "padding" || lb == "short-last-piece" {
			nontrivial = true
		}
	}
	res.Nontrivial = nontrivial
	res.Labels = append(res.Labels, fmt.Sprintf("took-%ds", int(time.Since(t0).Seconds())))
	if c.Magnet {
		res.Labels = append(res.Labels, "magnet")
	}
	if c.WebSeed {
		res.Labels = append(res.Labels, "webseed")
	}
	if c.SeedPeer {
		res.Labels = append(res.Labels, "peer-seed")
	}
	if len(c.Nuisance) > 0 {
		res.Labels = append(res.Labels, "nuisance")
	}
	if c.WSStall != nil {
		res.Labels = append(res.Labels, "slow-webseed")
	}
	if starved.Load() > 0 || frozen.Load() > 0 {
		res.Labels = append(res.Labels, "process-descheduled-over-0.4s")
	}
	if judged.Load() {
		// a full window with the honest seeder idle was examined (and every incomplete piece was accounted for)
		if wsMode {
			res.Labels = append(res.Labels, "idle-window-judged-webseed-paused")
		} else {
			res.Labels = append(res.Labels, "idle-window-judged")
		}
	}
	if !completed {
		// stuck-state predicate over a quiescence window
		st0 := tor.Stats()
		var req0 int
		if honest != nil {
			_, req0, _, _, _, _ = honest.Snapshot()
		}
		var ws0 int
		if good != nil {
			ws0 = len(good.Log())
		}
		time.Sleep(4 * time.Second)
		st1 := tor.Stats()
		progress := st1.Pieces.Have != st0.Pieces.Have || st1.Bytes.Downloaded != st0.Bytes.Downloaded
		if honest != nil {
			_, req1, outstanding, unchoked, interested, _ := honest.Snapshot()
			if req1 != req0 {
				progress = true
			}
			if !progress && !honest.P.Closed() && unchoked && outstanding == 0 {
				return core.Failf("STUCK: after 25 s the download is incomplete (%d/%d pieces, status %v) and for a further 4 s nothing moved although an honest seeder holding every piece is connected and unchoking the client, with no request outstanding (client interested=%v, requests received in total %d); peers=%d downloads=%+v",
					st1.Pieces.Have, st1.Pieces.Total, st1.Status, interested, req1, st1.Peers.Total, st1.Downloads)
			}
			if !progress && honest.P.Closed() && good == nil {
				return core.Failf("STUCK: the client disconnected the honest seeder (its only full source) and did not reconnect; %d/%d pieces, status %v, error %v", st1.Pieces.Have, st1.Pieces.Total, st1.Status, st1.Error)
			}
		}
		if c.Liar && honest == nil && (good == nil || c.Magnet) && !progress {
			return core.Failf("STUCK: after 29 s the download is incomplete (%d/%d pieces) and the client has never connected to the honest seeder whose address it was given with AddPeer: a peer without any piece had told it in its extension handshake that this address is the client's own (yourip), and the address was discarded",
				st1.Pieces.Have, st1.Pieces.Total)
		}
		wsKnown := good != nil && !c.Magnet // a magnet link carries no web seed address: the client does not know of it
		if wsKnown && !progress && len(good.Log()) == ws0 && honest == nil {
			for _, w := range tor.Webseeds() {
				if frozen.Load() > 0 && w.URL == good.URL() && w.Error != nil && (strings.Contains(w.Error.Error(), "timeout") || strings.Contains(w.Error.Error(), "deadline") || strings.Contains(w.Error.Error(), "canceled")) {
					// the client's 3 s header / body timeouts fired against the honest web seed (loaded machine): the source
					// was not reachable in the property's sense; the client retries it a minute later (c10.wsretry)
					res.Inconcl = fmt.Sprintf("the honest web seed timed out on the client's side: %v", w.Error)
					return res
				}
			}
			return core.Failf("STUCK: after 25 s the download is incomplete (%d/%d pieces, status %v) and for a further 4 s nothing moved although an honest web seed is configured and idle (%d requests so far)",
				st1.Pieces.Have, st1.Pieces.Total, st1.Status, ws0)
		}
		if honest == nil && !wsKnown {
			allMu.Lock()
			errs := append([]string(nil), acceptErrs...)
			allMu.Unlock()
			for _, e := range errs {
				if frozen.Load() > 0 && (strings.Contains(e, "timeout") || strings.Contains(e, "deadline")) {
					// the property assumes a reachable source: a handshake that the scripted listener gave up after 10 s (loaded machine) is not the client's doing
					res.Inconcl = fmt.Sprintf("the honest seeder never got connected: a handshake timed out at a scripted listener (%v)", errs)
					return res
				}
			}
			return core.Failf("no honest source ever connected (addresses given to the client: %v; handshakes that failed at the scripted listeners: %v)", peerAddrs, errs)
		}
		res.Inconcl = fmt.Sprintf("not complete after 29 s but still moving (%d/%d)", st1.Pieces.Have, st1.Pieces.Total)
		return res
	}
	// completion: every file byte-identical to F
	var mem *sstore.Mem
	for _, m := range prov.ByID {
		mem = m
	}
	if mem == nil {
		return core.Failf("torrent reports completion but never opened storage")
	}
	snap := mem.Snapshot()
	offs := l.FileOffsets()
	for i, f := range l.Files {
		if f.Pad != 0 {
			continue
		}
		name := l.ExpectedPath(i)
		got, ok := snap[name]
		if !ok {
			var names []string
			for k := range snap {
				names = append(names, k)
			}
			return core.Failf("torrent reports completion but file %q was never opened (storage has %s)", name, strings.Join(names, ", "))
		}
		if !bytes.Equal(got, F[offs[i]:offs[i]+f.Length]) {
			return core.Failf("torrent reports completion but file %q differs from the content the metainfo describes", name)
		}
	}
	st := tor.Stats()
	if st.Pieces.Have != st.Pieces.Total || st.Status != torrent.Seeding {
		return core.Failf("after NotifyComplete: status %v, %d/%d pieces", st.Status, st.Pieces.Have, st.Pieces.Total)
	}
	return res
}

func TestDownload(t *testing.T) { core.RunChild(t, "c10.download", genDL, runDL, 60*time.Second) }
