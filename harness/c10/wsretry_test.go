package c10

import (
	"bytes"
	"fmt"
	"strings"
	"sync/atomic"
	"testing"
	"time"

	"github.com/cenkalti/rain/v2/torrent"
	"github.com/cenkalti/rain/v2/verifharness/core"
	"github.com/cenkalti/rain/v2/verifharness/model"
	"github.com/cenkalti/rain/v2/verifharness/sess"
	"github.com/cenkalti/rain/v2/verifharness/sstore"
	"github.com/cenkalti/rain/v2/verifharness/strk"
	"pgregory.net/rapid"
)

// c10.wsretry: the only source is an honest web seed whose first answer fails (503, 404, or a body cut short). The
// client disables the source and retries it after its (fixed, one minute) retry period; the download must then finish.
// One case takes a little over a minute by construction, so this unit is small in both tiers.
type WSRetryCase struct {
	L    model.Layout `json:"layout"`
	Fail string       `json:"first_answer"` // 503 | 404 | truncated
}

func genWSRetry(t *rapid.T) WSRetryCase {
	return WSRetryCase{L: model.GenLayout(t, model.LayoutOpts{MaxTotal: 128 << 10, MaxPieces: 12, MaxFiles: 3, NoPadding: true}),
		Fail: rapid.SampledFrom([]string{"503", "404", "truncated"}).Draw(t, "fail")}
}

func runWSRetry(c WSRetryCase) core.Result {
	l := &c.L
	F := l.Flat()
	dir, cleanup := sess.Scratch("c10w")
	defer cleanup()
	cfg := sess.Config(dir)
	cfg.CustomStorage = sstore.NewProvider()
	files := map[string][]byte{}
	offs := l.FileOffsets()
	for i, f := range l.Files {
		if f.Pad != 0 {
			continue
		}
		path := "/" + strings.Join(append([]string{l.Name}, f.Path...), "/")
		if l.Single {
			path = "/" + l.Name
		}
		files[path] = F[offs[i] : offs[i]+f.Length]
	}
	ws, err := strk.NewWebSeed(sess.IP(40)+":0", files)
	if err != nil {
		return core.Result{Inconcl: "web seed: " + err.Error()}
	}
	defer ws.Close()
	var n atomic.Int64
	switch c.Fail {
	case "503":
		ws.Status = 503
	case "404":
		ws.Status = 404
	case "truncated":
		ws.TruncateAt = 1
	}
	ws.OnEnd = func() {
		if n.Add(1) == 1 {
			// from the second request on the web seed is honest
			ws.Status, ws.TruncateAt = 0, 0
		}
	}
	ses, err := torrent.NewSession(cfg)
	if err != nil {
		return core.Result{Inconcl: "session: " + err.Error()}
	}
	defer ses.Close()
	tor, err := ses.AddTorrent(bytes.NewReader(l.Metainfo(F, nil, []string{ws.URL()})), nil)
	if err != nil {
		return core.Failf("adding a valid torrent failed: %v", err)
	}
	t0 := time.Now()
	select {
	case <-tor.NotifyComplete():
	case err := <-tor.NotifyStop():
		return core.Failf("the torrent stopped by itself after a failed web seed answer (%s): %v", c.Fail, err)
	case <-time.After(85 * time.Second):
		st := tor.Stats()
		var wsErr []string
		for _, w := range tor.Webseeds() {
			wsErr = append(wsErr, fmt.Sprint(w.Error))
		}
		return core.Failf("the only source is a web seed whose first answer failed (%s) and that has been honest since: 85 s later (retry period one minute) the download is at %d/%d pieces, the web seed saw %d requests, its state in the client: %v",
			c.Fail, st.Pieces.Have, st.Pieces.Total, len(ws.Log()), wsErr)
	}
	return core.Result{Nontrivial: true, Labels: []string{"first-answer-" + c.Fail, fmt.Sprintf("took-%ds", int(time.Since(t0).Seconds())/10*10)}}
}

func TestWSRetry(t *testing.T) {
	core.RunChild(t, "c10.wsretry", genWSRetry, runWSRetry, 150*time.Second)
}
