package c12

import (
	"bufio"
	"bytes"
	"fmt"
	"io"
	"net"
	"sort"
	"strings"
	"sync"
	"testing"
	"time"

	"github.com/cenkalti/rain/v2/torrent"
	"github.com/cenkalti/rain/v2/verifharness/core"
	"github.com/cenkalti/rain/v2/verifharness/model"
	"github.com/cenkalti/rain/v2/verifharness/refmse"
	"github.com/cenkalti/rain/v2/verifharness/refwire"
	"github.com/cenkalti/rain/v2/verifharness/sess"
	"github.com/cenkalti/rain/v2/verifharness/sstore"
	"pgregory.net/rapid"
)

// c12.policy: the encryption-policy clause of C12 against a real session. The client is configured with one of the
// consistent combinations of {disable outgoing, force outgoing, force incoming}. It dials scripted listeners that
// speak plaintext only, MSE only (selecting RC4, preferring plaintext, or selecting plaintext even when it was not
// offered) or both, and it is dialed by scripted peers that speak plaintext or MSE offering {plaintext, RC4, both}.
// Every connection is recorded at the scripted end: how it started, what was offered and selected, and whether the
// BitTorrent handshake went through ("used"). With encryption forced for a direction no connection in that
// direction is ever used without RC4 - including the client's plaintext retry after a failed encrypted attempt.
type PolListener struct {
	Mode string `json:"mode"` // plain-only | mse-rc4 | mse-prefer-plain | mse-force-plain | both
}
type PolDialer struct {
	MSE     bool   `json:"mse"`
	Provide uint32 `json:"provide"` // 1 plaintext, 2 RC4, 3 both
}
type PolCase struct {
	L          model.Layout  `json:"layout"`
	DisableOut bool          `json:"disable_outgoing"`
	ForceOut   bool          `json:"force_outgoing"`
	ForceIn    bool          `json:"force_incoming"`
	Listeners  []PolListener `json:"listeners"`
	Dialers    []PolDialer   `json:"dialers"`
}

func genPol(t *rapid.T) PolCase {
	c := PolCase{L: model.GenLayout(t, model.LayoutOpts{MaxTotal: 64 << 10, MaxPieces: 4, MaxFiles: 2, NoPadding: true, BigPieces: true})}
	switch rapid.IntRange(0, 3).Draw(t, "out") {
	case 0:
		c.DisableOut = true
	case 1, 2:
		c.ForceOut = true
	}
	c.ForceIn = rapid.IntRange(0, 2).Draw(t, "in") != 0
	for i := rapid.IntRange(1, 5).Draw(t, "nlisteners"); i > 0; i-- {
		c.Listeners = append(c.Listeners, PolListener{Mode: rapid.SampledFrom([]string{"plain-only", "mse-rc4", "mse-prefer-plain", "mse-force-plain", "both"}).Draw(t, "mode")})
	}
	for i := rapid.IntRange(1, 5).Draw(t, "ndialers"); i > 0; i-- {
		d := PolDialer{MSE: rapid.IntRange(0, 3).Draw(t, "mse") != 0}
		if d.MSE {
			d.Provide = rapid.SampledFrom([]uint32{1, 2, 3}).Draw(t, "provide")
		}
		c.Dialers = append(c.Dialers, d)
	}
	return c
}

// connRec is what a scripted listener saw on one connection from the client.
type connRec struct {
	plain    bool   // started with a plaintext BitTorrent handshake
	provided uint32 // MSE: crypto_provide
	selected uint32 // MSE: what the listener selected
	used     bool   // the client's BitTorrent handshake was read (through the negotiated stream)
	err      string
}

func runPol(c PolCase) core.Result {
	l := &c.L
	F := l.Flat()
	ih := l.InfoHash(F)
	dir, cleanup := sess.Scratch("c12")
	defer cleanup()
	cfg := sess.Config(dir)
	cfg.DisableOutgoingEncryption, cfg.ForceOutgoingEncryption, cfg.ForceIncomingEncryption = c.DisableOut, c.ForceOut, c.ForceIn
	cfg.PeerHandshakeTimeout = time.Second
	cfg.PeerConnectTimeout = time.Second
	cfg.CustomStorage = sstore.NewProvider()
	ses, err := torrent.NewSession(cfg)
	if err != nil {
		return core.Result{Inconcl: "session: " + err.Error()}
	}
	defer ses.Close()
	tor, err := ses.AddTorrent(bytes.NewReader(l.Metainfo(F, nil, nil)), nil)
	if err != nil {
		return core.Failf("adding a valid torrent failed: %v", err)
	}
	for i := 0; i < 300 && tor.Stats().Status != torrent.Downloading; i++ {
		time.Sleep(10 * time.Millisecond)
	}
	clientAddr := fmt.Sprintf("%s:%d", sess.IP(0), tor.Port())
	var mu sync.Mutex
	recs := make([][]*connRec, len(c.Listeners))
	var lns []net.Listener
	secret := bytes.Repeat([]byte{0x5a}, 20)
	for i, pl := range c.Listeners {
		ln, err := net.Listen("tcp4", sess.IP(10+i)+":0")
		if err != nil {
			panic(err)
		}
		lns = append(lns, ln)
		i, mode := i, pl.Mode
		go func() {
			for {
				conn, err := ln.Accept()
				if err != nil {
					return
				}
				go func() {
					defer conn.Close()
					_ = conn.SetDeadline(time.Now().Add(3 * time.Second))
					rec := &connRec{}
					mu.Lock()
					recs[i] = append(recs[i], rec)
					mu.Unlock()
					br := bufio.NewReader(conn)
					head, err := br.Peek(20)
					if err != nil {
						rec.err = "peek: " + err.Error()
						return
					}
					var rw io.ReadWriter = struct {
						io.Reader
						io.Writer
					}{br, conn}
					isPlain := head[0] == 19 && string(head[1:20]) == "BitTorrent protocol"
					mu.Lock()
					rec.plain = isPlain
					mu.Unlock()
					if isPlain {
						if mode != "plain-only" && mode != "both" {
							return // an MSE-only peer hangs up on plaintext
						}
					} else {
						if mode == "plain-only" {
							return
						}
						sel := func(provide uint32) uint32 {
							switch mode {
							case "mse-rc4":
								if provide&2 != 0 {
									return 2
								}
								return 0
							case "mse-force-plain":
								return 1 // even when it was not offered
							default: // prefer plaintext
								if provide&1 != 0 {
									return 1
								}
								if provide&2 != 0 {
									return 2
								}
								return 0
							}
						}
						mc, err := refmse.Receive(rw, refmse.Opts{SKeys: [][]byte{ih[:]}, Pad1: 7, Pad2: 3, Select: sel, Secret: secret})
						if mc != nil {
							mu.Lock()
							rec.provided, rec.selected = mc.Provided, mc.Selected
							mu.Unlock()
						}
						if err != nil {
							mu.Lock()
							rec.err = "mse: " + err.Error()
							mu.Unlock()
							return
						}
						rw = mc
					}
					b := make([]byte, 68)
					if _, err := io.ReadFull(rw, b); err != nil {
						mu.Lock()
						rec.err = "handshake: " + err.Error()
						mu.Unlock()
						return
					}
					if _, hih, _, err := refwire.ParseHandshake(b); err != nil || hih != ih {
						mu.Lock()
						rec.err = "not a handshake for this torrent"
						mu.Unlock()
						return
					}
					// The client's handshake is the initial payload of an MSE handshake: it travels RC4-encrypted inside
					// the negotiation, before the client has seen our selection. The connection is "in use" only when the
					// client goes on after our answer: with the fast and extension bits set it sends have-none and its
					// extension handshake at once.
					var id [20]byte
					copy(id[:], fmt.Sprintf("-PL0001-%012d", i))
					rw.Write(refwire.Handshake(refwire.ReservedBits(true, true, false), ih, id))
					hdr := make([]byte, 5)
					if _, err := io.ReadFull(rw, hdr); err != nil {
						mu.Lock()
						rec.err = "nothing after the handshake: " + err.Error()
						mu.Unlock()
						return
					}
					if n := uint32(hdr[0])<<24 | uint32(hdr[1])<<16 | uint32(hdr[2])<<8 | uint32(hdr[3]); n == 0 || n > 1<<20 || hdr[4] > 21 {
						mu.Lock()
						rec.err = fmt.Sprintf("bytes after the handshake are not a message frame in the selected stream mode: % x", hdr)
						mu.Unlock()
						return
					}
					mu.Lock()
					rec.used = true
					mu.Unlock()
					io.Copy(io.Discard, struct{ io.Reader }{rw})
				}()
			}
		}()
		_ = tor.AddPeer(ln.Addr().String())
	}
	defer func() {
		for _, ln := range lns {
			ln.Close()
		}
	}()
	// dialers
	type dialRes struct {
		answered bool
		selected uint32
		err      string
	}
	dres := make([]dialRes, len(c.Dialers))
	var wg sync.WaitGroup
	for i, d := range c.Dialers {
		i, d := i, d
		wg.Add(1)
		go func() {
			defer wg.Done()
			nd := net.Dialer{Timeout: 2 * time.Second, LocalAddr: &net.TCPAddr{IP: net.ParseIP(sess.IP(40 + i))}}
			var conn net.Conn
			var err error
			for try := 0; try < 40; try++ {
				conn, err = nd.Dial("tcp4", clientAddr)
				if err == nil || !strings.Contains(err.Error(), "refused") {
					break
				}
				time.Sleep(25 * time.Millisecond)
			}
			if err != nil {
				dres[i].err = err.Error()
				return
			}
			defer conn.Close()
			_ = conn.SetDeadline(time.Now().Add(2500 * time.Millisecond))
			var rw io.ReadWriter = conn
			if d.MSE {
				mc, err := refmse.Initiate(conn, refmse.Opts{SKeys: [][]byte{ih[:]}, Pad1: 5, Pad2: 9, Provide: d.Provide, Secret: secret})
				if err != nil {
					dres[i].err = "mse: " + err.Error()
					return
				}
				dres[i].selected = mc.Selected
				rw = mc
			}
			var id [20]byte
			copy(id[:], fmt.Sprintf("-PD0001-%012d", i))
			if _, err := rw.Write(refwire.Handshake(refwire.ReservedBits(false, false, false), ih, id)); err != nil {
				dres[i].err = err.Error()
				return
			}
			b := make([]byte, 68)
			if _, err := io.ReadFull(rw, b); err != nil {
				dres[i].err = "no handshake answer: " + err.Error()
				return
			}
			if _, hih, _, err := refwire.ParseHandshake(b); err == nil && hih == ih {
				dres[i].answered = true
			}
		}()
	}
	wg.Wait()
	// give the client's retries time: encrypted attempt (1 s timeout at most) + plaintext retry
	time.Sleep(2500 * time.Millisecond)

	lab := map[string]bool{}
	mu.Lock()
	defer mu.Unlock()
	for i, rs := range recs {
		mode := c.Listeners[i].Mode
		anyUsed := false
		for k, r := range rs {
			what := fmt.Sprintf("listener %d (%s), connection %d", i, mode, k)
			if c.ForceOut {
				if r.plain {
					return core.Failf("%s: the client sent a plaintext handshake although outgoing encryption is forced (plaintext retry after a failed encrypted attempt?)", what)
				}
				if r.used && r.selected != 2 {
					return core.Failf("%s: the connection is in use with cipher %d (1 = plaintext) although outgoing encryption is forced (offered %d)", what, r.selected, r.provided)
				}
				if r.provided&1 != 0 {
					return core.Failf("%s: the client offered plaintext (crypto_provide %d) although outgoing encryption is forced", what, r.provided)
				}
			}
			if r.used && !r.plain && r.selected&r.provided == 0 {
				return core.Failf("%s: the connection is in use with cipher %d, which the client had not offered (%d)", what, r.selected, r.provided)
			}
			if r.used {
				anyUsed = true
			}
		}
		// what must work: a plaintext-capable listener with a client that may speak plaintext, an RC4-capable one with a client that may encrypt
		canPlain := (mode == "plain-only" || mode == "both") && !c.ForceOut
		canRC4 := (mode == "mse-rc4" || mode == "both" || mode == "mse-prefer-plain") && !c.DisableOut
		canMSEPlain := mode == "mse-prefer-plain" && !c.DisableOut && !c.ForceOut
		if (canPlain || canRC4 || canMSEPlain) && !anyUsed {
			lab["compatible-listener-not-connected"] = true
		}
		if c.ForceOut && len(rs) > 0 {
			lab["forced-out-"+mode] = true
		}
	}
	for i, d := range c.Dialers {
		r := dres[i]
		what := fmt.Sprintf("dialer %d (mse %v, crypto_provide %d)", i, d.MSE, d.Provide)
		if c.ForceIn {
			if !d.MSE && r.answered {
				return core.Failf("%s: a plaintext handshake was answered although incoming encryption is forced", what)
			}
			if d.MSE && r.answered && r.selected != 2 {
				return core.Failf("%s: the connection was accepted with cipher %d (1 = plaintext) although incoming encryption is forced", what, r.selected)
			}
			lab[fmt.Sprintf("forced-in-mse-%v-provide-%d", d.MSE, d.Provide)] = true
		}
		if d.MSE && r.answered && r.selected&d.Provide == 0 {
			return core.Failf("%s: the client selected cipher %d, which was not offered", what, r.selected)
		}
		compatible := (!d.MSE && !c.ForceIn) || (d.MSE && d.Provide&2 != 0) || (d.MSE && d.Provide == 1 && !c.ForceIn)
		if compatible && !r.answered {
			lab["compatible-dialer-not-answered"] = true
		}
	}
	res := core.Result{Nontrivial: c.ForceOut || c.ForceIn}
	for k := range lab {
		res.Labels = append(res.Labels, k)
	}
	sort.Strings(res.Labels)
	return res
}

func TestPolicy(t *testing.T) { core.RunChild(t, "c12.policy", genPol, runPol, 60*time.Second) }
