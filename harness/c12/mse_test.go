package c12

import (
	"bytes"
	"fmt"
	"io"
	"os"
	"testing"
	"time"

	"github.com/cenkalti/rain/v2/internal/logger"
	"github.com/cenkalti/rain/v2/internal/mse"
	"github.com/cenkalti/rain/v2/verifharness/chunkconn"
	"github.com/cenkalti/rain/v2/verifharness/core"
	"github.com/cenkalti/rain/v2/verifharness/refmse"
	"pgregory.net/rapid"
)

func TestMain(m *testing.M) {
	logger.Disable()
	os.Exit(m.Run())
}

// MSECase: one handshake plus a data exchange.
type MSECase struct {
	Pairing string `json:"pairing"` // rain-rain | rain-ref (rain initiates) | ref-rain (reference initiates)
	KeyA    []byte `json:"key_a"`
	KeyB    []byte `json:"key_b"` // receiver's key (differs from KeyA in wrong-key cases)
	Provide uint32 `json:"provide"`
	Policy  int    `json:"policy"` // receiver: 0 prefer RC4, 1 prefer plaintext, 2 RC4 only, 3 plaintext only
	Pad1    int    `json:"pad1"`   // reference side's first pad (PadA or PadB)
	Pad2    int    `json:"pad2"`   // reference side's second pad (PadC or PadD)
	IALen   int    `json:"ia_len"`
	AReads  []int  `json:"a_reads"`
	BReads  []int  `json:"b_reads"`
	AtoB    []int  `json:"a_to_b"` // sizes of writes after the handshake
	BtoA    []int  `json:"b_to_a"`
	SecretA []byte `json:"secret_a"`
	SecretB []byte `json:"secret_b"`
	Tail    int    `json:"tail_prefix"` // reference side: last bytes of its first pad mimic a prefix of the sync marker
}

var padEdges = []int{0, 1, 2, 7, 8, 19, 20, 95, 96, 255, 256, 500, 510, 511, 512}

func genMSE(t *rapid.T) MSECase {
	c := MSECase{Pairing: rapid.SampledFrom([]string{"rain-rain", "rain-ref", "ref-rain", "rain-ref", "ref-rain"}).Draw(t, "pairing")}
	c.KeyA = rapid.SliceOfN(rapid.Byte(), 20, 20).Draw(t, "key")
	c.KeyB = c.KeyA
	if rapid.IntRange(0, 7).Draw(t, "wrongKey") == 0 {
		c.KeyB = append([]byte(nil), c.KeyA...)
		c.KeyB[rapid.IntRange(0, 19).Draw(t, "flipAt")] ^= 1 << rapid.IntRange(0, 7).Draw(t, "flipBit")
	}
	c.Provide = uint32(rapid.SampledFrom([]int{1, 2, 3, 3, 3}).Draw(t, "provide"))
	c.Policy = rapid.IntRange(0, 3).Draw(t, "policy")
	pad := func(l string) int {
		if rapid.Bool().Draw(t, l+"Edge") {
			return rapid.SampledFrom(padEdges).Draw(t, l)
		}
		return rapid.IntRange(0, 512).Draw(t, l)
	}
	c.Pad1, c.Pad2 = pad("pad1"), pad("pad2")
	c.IALen = rapid.SampledFrom([]int{0, 0, 1, 68, 67, 69, 1000, 16384, 65535, 65534}).Draw(t, "ia")
	if rapid.IntRange(0, 3).Draw(t, "iaRnd") == 0 {
		c.IALen = rapid.IntRange(0, 65535).Draw(t, "iaLen")
	}
	sched := func(l string) []int {
		switch rapid.IntRange(0, 4).Draw(t, l+"Class") {
		case 0:
			return nil
		case 1:
			return []int{1}
		case 2:
			return rapid.SliceOfN(rapid.IntRange(1, 9), 1, 5).Draw(t, l)
		default:
			return rapid.SliceOfN(rapid.SampledFrom([]int{1, 7, 8, 19, 20, 21, 95, 96, 97, 100, 607, 608, 609, 0}), 1, 6).Draw(t, l)
		}
	}
	c.AReads, c.BReads = sched("aReads"), sched("bReads")
	c.AtoB = rapid.SliceOfN(rapid.SampledFrom([]int{0, 1, 2, 68, 1000, 16397, 70000}), 0, 4).Draw(t, "atob")
	c.BtoA = rapid.SliceOfN(rapid.SampledFrom([]int{0, 1, 2, 68, 1000, 16397, 70000}), 0, 4).Draw(t, "btoa")
	c.SecretA = rapid.SliceOfN(rapid.Byte(), 20, 20).Draw(t, "secretA")
	c.SecretB = rapid.SliceOfN(rapid.Byte(), 20, 20).Draw(t, "secretB")
	if rapid.IntRange(0, 2).Draw(t, "tailOn") == 0 {
		c.Tail = rapid.IntRange(1, 19).Draw(t, "tail")
	}
	c.SecretA[0] |= 1
	c.SecretB[0] |= 1
	return c
}

func selectFn(policy int) func(uint32) uint32 {
	return func(p uint32) uint32 {
		switch policy {
		case 0:
			if p&2 != 0 {
				return 2
			}
			return p & 1
		case 1:
			if p&1 != 0 {
				return 1
			}
			return p & 2
		case 2:
			return p & 2
		default:
			return p & 1
		}
	}
}

func pattern(n int, salt byte) []byte {
	b := make([]byte, n)
	for i := range b {
		b[i] = byte(i*31) ^ salt ^ byte(i>>8)
	}
	return b
}

type side struct {
	rw       io.ReadWriter
	selected uint32
	err      error
}

func runMSE(c MSECase) core.Result {
	a, b := chunkconn.Pair(c.AReads, c.BReads)
	ia := pattern(c.IALen, 0x5a)
	resA, resB := make(chan side, 1), make(chan side, 1)
	sel := selectFn(c.Policy)
	// initiator
	go func() {
		var s side
		defer func() {
			if s.err != nil {
				a.Close()
			}
			resA <- s
		}()
		if c.Pairing == "ref-rain" {
			conn, err := refmse.Initiate(a, refmse.Opts{SKeys: [][]byte{c.KeyA}, Pad1: c.Pad1, Pad2: c.Pad2, Provide: c.Provide, IA: ia, Secret: c.SecretA, TailPrefix: c.Tail})
			if err != nil {
				s.err = err
				return
			}
			s.rw, s.selected = conn, conn.Selected
			return
		}
		st := mse.NewStream(a)
		selected, err := st.HandshakeOutgoing(c.KeyA, mse.CryptoMethod(c.Provide), ia)
		s.rw, s.selected, s.err = st, uint32(selected), err
	}()
	// receiver
	go func() {
		var s side
		defer func() {
			if s.err != nil {
				b.Close()
			}
			resB <- s
		}()
		if c.Pairing == "rain-ref" {
			conn, err := refmse.Receive(b, refmse.Opts{SKeys: [][]byte{c.KeyB}, Pad1: c.Pad1, Pad2: c.Pad2, Select: sel, Secret: c.SecretB, TailPrefix: c.Tail})
			if err != nil {
				s.err = err
				return
			}
			s.rw, s.selected = conn, conn.Selected
			return
		}
		st := mse.NewStream(b)
		var chosen mse.CryptoMethod
		err := st.HandshakeIncoming(func(hash [20]byte) []byte {
			if hash == mse.HashSKey(c.KeyB) {
				return c.KeyB
			}
			return nil
		}, func(p mse.CryptoMethod) mse.CryptoMethod {
			chosen = mse.CryptoMethod(sel(uint32(p)))
			return chosen
		})
		s.rw, s.selected, s.err = st, uint32(chosen), err
	}()
	var sa, sb side
	timeout := time.After(20 * time.Second)
	for i := 0; i < 2; i++ {
		select {
		case sa = <-resA:
			resA = nil
		case sb = <-resB:
			resB = nil
		case <-timeout:
			a.Close()
			b.Close()
			return core.Failf("handshake did not finish on both sides within 20 s over a fault-free transport")
		}
	}
	res := core.Result{Labels: []string{c.Pairing}}
	wrongKey := !bytes.Equal(c.KeyA, c.KeyB)
	expectOK := !wrongKey && sel(c.Provide) != 0
	if wrongKey {
		res.Labels = append(res.Labels, "wrong-key")
	}
	edge := false
	for _, e := range padEdges {
		if c.Pad1 == e || c.Pad2 == e {
			edge = true
		}
	}
	res.Nontrivial = c.Pairing != "rain-rain" && edge || len(c.AReads) > 0 || len(c.BReads) > 0
	if (sa.err == nil) != (sb.err == nil) {
		return core.Failf("one side completed the handshake and the other failed: initiator err=%v, receiver err=%v", sa.err, sb.err)
	}
	if sa.err != nil {
		res.Labels = append(res.Labels, "both-fail")
		if expectOK {
			return core.Failf("handshake failed on both sides although key matches and offer %d / policy %d intersect: initiator %v; receiver %v", c.Provide, c.Policy, sa.err, sb.err)
		}
		return res
	}
	res.Labels = append(res.Labels, "both-ok")
	if wrongKey {
		return core.Failf("handshake completed with different keys on the two sides")
	}
	if sa.selected != sb.selected || sa.selected&c.Provide == 0 || sa.selected&(sa.selected-1) != 0 {
		return core.Failf("cipher disagreement: initiator %d, receiver %d, offered %d", sa.selected, sb.selected, c.Provide)
	}
	if sa.selected == 2 {
		res.Labels = append(res.Labels, "rc4")
	} else {
		res.Labels = append(res.Labels, "plaintext")
	}
	// data exchange: receiver must first read IA, then A->B writes; initiator reads B->A writes.
	var wantB, wantA []byte
	wantB = append(wantB, ia...)
	for i, n := range c.AtoB {
		wantB = append(wantB, pattern(n, byte(i+1))...)
	}
	for i, n := range c.BtoA {
		wantA = append(wantA, pattern(n, byte(0x80+i))...)
	}
	errc := make(chan error, 4)
	go func() {
		for i, n := range c.AtoB {
			if _, err := sa.rw.Write(pattern(n, byte(i+1))); err != nil {
				errc <- fmt.Errorf("initiator write: %v", err)
				return
			}
		}
		errc <- nil
	}()
	go func() {
		for i, n := range c.BtoA {
			if _, err := sb.rw.Write(pattern(n, byte(0x80+i))); err != nil {
				errc <- fmt.Errorf("receiver write: %v", err)
				return
			}
		}
		errc <- nil
	}()
	readN := func(r io.Reader, want []byte, who string) {
		got := make([]byte, len(want))
		if _, err := io.ReadFull(r, got); err != nil {
			errc <- fmt.Errorf("%s read: %v", who, err)
			return
		}
		if !bytes.Equal(got, want) {
			i := 0
			for i < len(got) && got[i] == want[i] {
				i++
			}
			errc <- fmt.Errorf("%s read %d bytes that differ from what was written (first difference at byte %d; initial payload is %d bytes)", who, len(got), i, len(ia))
			return
		}
		errc <- nil
	}
	go readN(sb.rw, wantB, "receiver")
	go readN(sa.rw, wantA, "initiator")
	dl := time.After(20 * time.Second)
	for i := 0; i < 4; i++ {
		select {
		case err := <-errc:
			if err != nil {
				a.Close()
				b.Close()
				return core.Failf("after a successful handshake (cipher %d): %v", sa.selected, err)
			}
		case <-dl:
			a.Close()
			b.Close()
			return core.Failf("data exchange after the handshake did not finish within 20 s")
		}
	}
	// the bytes on the wire after an RC4 handshake must not be the plaintext
	a.Close()
	b.Close()
	return res
}

func TestMSE(t *testing.T) { core.Run(t, "c12.mse", genMSE, runMSE) }
