package c01

import (
	"bytes"
	"fmt"
	"net"
	"os"
	"strings"
	"sync"
	"testing"
	"time"

	"github.com/cenkalti/rain/v2/internal/logger"
	"github.com/cenkalti/rain/v2/internal/resumer/boltdbresumer"
	"github.com/cenkalti/rain/v2/torrent"
	"github.com/cenkalti/rain/v2/verifharness/core"
	"github.com/cenkalti/rain/v2/verifharness/model"
	"github.com/cenkalti/rain/v2/verifharness/refwire"
	"github.com/cenkalti/rain/v2/verifharness/sess"
	"github.com/cenkalti/rain/v2/verifharness/speer"
	"github.com/cenkalti/rain/v2/verifharness/sstore"
	"github.com/cenkalti/rain/v2/verifharness/strk"
	"go.etcd.io/bbolt"
	"pgregory.net/rapid"
)

func TestMain(m *testing.M) {
	if os.Getenv("VERIF_DEBUG") == "" {
		logger.Disable()
	}
	os.Exit(m.Run())
}

type Cmd struct {
	AtMs int    `json:"at_ms"`
	Op   string `json:"op"` // stop | start
}

// IntCase: a download among honest and malicious sources with generated disk-write delays and stop/start commands.
type IntCase struct {
	L           model.Layout      `json:"layout"`
	Sequential  bool              `json:"sequential"`
	Adversaries []speer.Behaviour `json:"adversaries"`
	AdvDial     []bool            `json:"adv_dial"`
	Honest      int               `json:"honest"`       // number of honest seeders (>= 2 provokes end-game duplicates)
	WebSeed     int               `json:"web_seed"`     // 0 none, 1 honest, 2 corrupting, 3 truncating
	WriteDelays []int             `json:"write_delays"` // ms, cycled over storage writes
	Cmds        []Cmd             `json:"cmds"`
	FailWrites  []int             `json:"fail_writes"` // ordinals of storage writes that fail with an I/O error (nothing written)
	ReqOut      int               `json:"max_requests_out"`
	EndgameMax  int               `json:"endgame_max"`
}

func genInt(t *rapid.T) IntCase {
	c := IntCase{L: model.GenLayout(t, model.LayoutOpts{MaxTotal: 400 << 10, MaxPieces: 64, MaxFiles: 5})}
	c.Sequential = rapid.Bool().Draw(t, "seq")
	c.Honest = rapid.IntRange(1, 3).Draw(t, "honest")
	n := rapid.IntRange(1, 3).Draw(t, "nadv")
	for i := 0; i < n; i++ {
		var b speer.Behaviour
		switch rapid.IntRange(0, 9).Draw(t, "kind") {
		case 0:
			b.CorruptAll = true
		case 1:
			b.CorruptBlocks = []int{rapid.IntRange(0, 6).Draw(t, "cb")}
		case 2:
			b.ShortBlocks = true
		case 3:
			b.WrongOffset = true
		case 4:
			b.Unrequested = true
		case 5:
			b.DuplicateEvery = rapid.IntRange(1, 2).Draw(t, "dup")
		case 6:
			b.ChokeAfter, b.ChokeMs = rapid.IntRange(1, 4).Draw(t, "ca"), rapid.SampledFrom([]int{1, 30}).Draw(t, "cms")
			b.CorruptBlocks = []int{rapid.IntRange(0, 8).Draw(t, "cb")}
		case 7, 8:
			b.CorruptAll, b.CloseOnPieceDone = true, true
		default:
			{
				b.DisconnectAfter = rapid.IntRange(1, 5).Draw(t, "da")
				b.CorruptBlocks = []int{0}
			}
		}
		c.Adversaries = append(c.Adversaries, b)
		c.AdvDial = append(c.AdvDial, rapid.Bool().Draw(t, "advDial"))
	}
	c.WebSeed = rapid.SampledFrom([]int{0, 0, 1, 2, 3}).Draw(t, "ws")
	c.WriteDelays = rapid.SliceOfN(rapid.SampledFrom([]int{0, 0, 0, 1, 5, 25}), 1, 5).Draw(t, "wd")
	for i := rapid.IntRange(0, 3).Draw(t, "ncmd"); i > 0; i-- {
		c.Cmds = append(c.Cmds, Cmd{AtMs: rapid.IntRange(0, 400).Draw(t, "at"), Op: rapid.SampledFrom([]string{"stop", "start", "stop"}).Draw(t, "op")})
	}
	if rapid.IntRange(0, 2).Draw(t, "failw") == 0 {
		c.FailWrites = rapid.SliceOfN(rapid.IntRange(0, 12), 1, 2).Draw(t, "failWrites")
	}
	c.ReqOut = rapid.SampledFrom([]int{1, 4, 250}).Draw(t, "reqout")
	if rapid.IntRange(0, 4).Draw(t, "banScenario") == 0 {
		// the shape in which a hash failure is attributable: one adversary corrupting whole pieces and hanging up, nothing else corrupting
		c.Adversaries = []speer.Behaviour{{CorruptAll: true, CloseOnPieceDone: true}}
		c.AdvDial = []bool{rapid.Bool().Draw(t, "banDial")}
		c.WebSeed = 0 // a web seed that duplicates a piece a peer has completed also counts as wasted bytes: the probe could not tell
		c.Cmds, c.FailWrites = nil, nil
	}
	c.EndgameMax = rapid.SampledFrom([]int{1, 2, 20}).Draw(t, "eg")
	if len(c.Adversaries) == 1 && c.Adversaries[0].CloseOnPieceDone && c.Cmds == nil {
		c.EndgameMax = 1
	}
	return c
}

func webFiles(l *model.Layout, F []byte) map[string][]byte {
	files := map[string][]byte{}
	offs := l.FileOffsets()
	for i, f := range l.Files {
		if f.Pad == 0 {
			files["/"+l.ExpectedPath(i)] = F[offs[i] : offs[i]+f.Length]
		}
	}
	return files
}

type judge struct {
	mu        sync.Mutex
	l         *model.Layout
	F         []byte
	fileOff   map[string]int64 // storage name -> offset in F
	fileLen   map[string]int64
	good      []bool      // per byte of F: written correctly
	pieceLeft []int       // data bytes of each piece not yet written correctly
	doneAt    []time.Time // when the piece's last data byte was written
	violation string
	writes    int
}

func newJudge(l *model.Layout, F []byte) *judge {
	j := &judge{l: l, F: F, fileOff: map[string]int64{}, fileLen: map[string]int64{}, good: make([]bool, len(F))}
	offs := l.FileOffsets()
	for i, f := range l.Files {
		if f.Pad == 0 {
			j.fileOff[l.ExpectedPath(i)] = offs[i]
			j.fileLen[l.ExpectedPath(i)] = f.Length
		}
	}
	mask := l.PadMask()
	n := l.NumPieces()
	j.pieceLeft = make([]int, n)
	j.doneAt = make([]time.Time, n)
	for p := 0; p < n; p++ {
		for b := p * int(l.PieceLength); b < min((p+1)*int(l.PieceLength), len(F)); b++ {
			if !mask[b] {
				j.pieceLeft[p]++
			}
		}
		if j.pieceLeft[p] == 0 {
			j.doneAt[p] = time.Now() // padding-only piece: nothing to write
		}
	}
	return j
}

func (j *judge) fail(s string) {
	if j.violation == "" {
		j.violation = s
	}
}

// onWrite is called after the bytes are in place.
func (j *judge) onWrite(name string, off int64, p []byte) {
	j.mu.Lock()
	defer j.mu.Unlock()
	j.writes++
	base, ok := j.fileOff[name]
	if !ok {
		j.fail(fmt.Sprintf("write to %q, which is not a data file of the torrent", name))
		return
	}
	if off < 0 || off+int64(len(p)) > j.fileLen[name] {
		j.fail(fmt.Sprintf("write [%d,%d) outside file %q of %d bytes", off, off+int64(len(p)), name, j.fileLen[name]))
		return
	}
	if !bytes.Equal(p, j.F[base+off:base+off+int64(len(p))]) {
		k := 0
		for k < len(p) && p[k] == j.F[base+off+int64(k)] {
			k++
		}
		pi := (base + off + int64(k)) / int64(j.l.PieceLength)
		j.fail(fmt.Sprintf("bytes written to %q at offset %d (+%d) differ from the content the metainfo describes (piece %d): data that did not pass the hash check reached the disk", name, off, k, pi))
		return
	}
	pl := int64(j.l.PieceLength)
	for k := base + off; k < base+off+int64(len(p)); k++ {
		if !j.good[k] {
			j.good[k] = true
			pi := k / pl
			j.pieceLeft[pi]--
			if j.pieceLeft[pi] == 0 {
				j.doneAt[pi] = time.Now()
			}
		}
	}
}

func (j *judge) complete() (n int, done []bool) {
	j.mu.Lock()
	defer j.mu.Unlock()
	done = make([]bool, len(j.pieceLeft))
	for i, l := range j.pieceLeft {
		if l == 0 {
			done[i] = true
			n++
		}
	}
	return
}

func runInt(c IntCase) core.Result {
	l := &c.L
	F := l.Flat()
	ih := l.InfoHash(F)
	infoBytes := l.InfoBytes(F)
	res := core.Result{}
	j := newJudge(l, F)
	dir, cleanup := sess.Scratch("c01")
	defer cleanup()
	cfg := sess.Config(dir)
	prov := sstore.NewProvider()
	var wn int
	var wmu sync.Mutex
	prov.Setup = func(id string, m *sstore.Mem) {
		m.WriteHook = func(name string, off int64, p []byte) {
			wmu.Lock()
			d := c.WriteDelays[wn%len(c.WriteDelays)]
			wn++
			wmu.Unlock()
			if d > 0 {
				time.Sleep(time.Duration(d) * time.Millisecond)
			}
		}
		m.AfterWrite = j.onWrite
		var fn int
		m.FailWrite = func(name string, off int64, p []byte) error {
			wmu.Lock()
			defer wmu.Unlock()
			k := fn
			fn++
			for _, f := range c.FailWrites {
				if f == k {
					return fmt.Errorf("injected: no space left on device")
				}
			}
			return nil
		}
	}
	cfg.CustomStorage = prov
	cfg.MaxRequestsOut = c.ReqOut
	cfg.DefaultRequestsOut = min(c.ReqOut, 50)
	cfg.EndgameMaxDuplicateDownloads = c.EndgameMax
	ses, err := torrent.NewSession(cfg)
	if err != nil {
		return core.Result{Inconcl: "session: " + err.Error()}
	}
	closed := false
	defer func() {
		if !closed {
			ses.Close()
		}
	}()
	var urls []string
	var ws *strk.WebSeed
	if c.WebSeed != 0 {
		ws, err = strk.NewWebSeed(sess.IP(40)+":0", webFiles(l, F))
		if err != nil {
			panic(err)
		}
		defer ws.Close()
		switch c.WebSeed {
		case 2:
			ws.CorruptEveryN = 2
		case 3:
			ws.TruncateAt = 50
		}
		urls = []string{ws.URL()}
	}
	tor, err := ses.AddTorrent(bytes.NewReader(l.Metainfo(F, nil, urls)), &torrent.AddTorrentOptions{Sequential: c.Sequential, Stopped: true})
	if err != nil {
		return core.Failf("adding a valid torrent failed: %v", err)
	}
	mkOpts := func(k int, fast bool) speer.Opts {
		var id [20]byte
		copy(id[:], fmt.Sprintf("-SP0001-%012d", k))
		return speer.Opts{InfoHash: ih, PeerID: id, Fast: fast, Ext: true, MetadataSize: int64(len(infoBytes)), Reqq: 250}
	}
	var pmu sync.Mutex
	var allPeers []*speer.Peer
	type advState struct {
		b       speer.Behaviour
		ip      string
		srv     []*speer.Server
		dialing bool
	}
	var advs []*advState
	// listeners (client dials them)
	var addrs []string
	var probeFn func(i int, st *advState, s *speer.Server)
	listen := func(k int, b speer.Behaviour, fast bool, st *advState) {
		ln, err := net.Listen("tcp4", sess.IP(k)+":0")
		if err != nil {
			panic(err)
		}
		addrs = append(addrs, ln.Addr().String())
		go func() {
			for {
				conn, err := ln.Accept()
				if err != nil {
					return
				}
				go func() {
					p, err := speer.Accept(conn, mkOpts(k, fast), 3*time.Second)
					if err != nil {
						return
					}
					s := speer.Serve(p, b, F, int(l.PieceLength), infoBytes)
					s.Mask = l.PadMask()
					pmu.Lock()
					allPeers = append(allPeers, p)
					if st != nil {
						st.srv = append(st.srv, s)
					}
					pmu.Unlock()
					if st != nil && b.CloseOnPieceDone && probeFn != nil {
						go probeFn(k-10, st, s)
					}
				}()
			}
		}()
		t := ln
		_ = t
	}
	slowHonest := speer.Behaviour{}
	for _, b := range c.Adversaries {
		if b.CloseOnPieceDone {
			slowHonest.DelayPerBlockMs = 40 // keep the download going long enough for the reconnect probe
		}
	}
	for i := 0; i < c.Honest; i++ {
		listen(1+i, slowHonest, i%2 == 0, nil)
	}
	probeC := make(chan string, 8)
	probe := func(i int, st *advState, s *speer.Server) {
		defer func() { recover() }()
		// the adversary supplied a complete corrupted piece and hung up at once; once the client has judged that piece
		// (piece writes are serialised: allow for the generated write delays), the same address must not be accepted again
		<-s.Done()
		time.Sleep(450 * time.Millisecond)
		// Sound only when the client itself has seen a hash failure and this adversary is the only source of corrupt
		// data: a disconnect may be handled before the last blocks (they travel on different channels), in which
		// case the piece is never assembled and nobody is to blame.
		corrupting := 0
		for _, b := range c.Adversaries {
			if b.CorruptAll || len(b.CorruptBlocks) > 0 {
				corrupting++
			}
		}
		if c.WebSeed == 2 {
			corrupting++
		}
		// Attribution is only certain when nothing else can discard the piece before its hash is judged: no stop/start
		// or failing write in the history (a stop drops pieces in flight), and no duplicate download of a piece.
		// ... and when the wasted-bytes counter can only mean "a piece failed its hash check": a web seed whose piece
		// arrives after a peer has completed the same piece is counted as wasted too.
		if len(c.Cmds) > 0 || len(c.FailWrites) > 0 || c.EndgameMax != 1 || corrupting != 1 || c.WebSeed != 0 {
			return
		}
		if st0 := tor.Stats(); st0.Status != torrent.Downloading || st0.Bytes.Wasted == 0 {
			return
		}
		p, err := speer.Dial(st.ip, fmt.Sprintf("%s:%d", sess.IP(0), tor.Port()), mkOpts(10+i, false), 700*time.Millisecond)
		if err != nil {
			probeC <- ""
			return
		}
		defer p.Close()
		if tor.Stats().Status == torrent.Downloading {
			probeC <- fmt.Sprintf("adversary %d supplied a complete piece of corrupted data and closed its connection; the client counted the piece as wasted, yet 450 ms later a new connection from the same address %s was accepted while the download was still running (the peer was not banned)", i, st.ip)
		}
	}
	probeFn = probe
	for i, b := range c.Adversaries {
		st := &advState{b: b, ip: sess.IP(10 + i), dialing: c.AdvDial[i]}
		advs = append(advs, st)
		if !c.AdvDial[i] {
			listen(10+i, b, i%2 == 1, st)
		}
	}
	if err := tor.Start(); err != nil {
		return core.Failf("start: %v", err)
	}
	for _, a := range addrs {
		_ = tor.AddPeer(a)
	}
	clientAddr := fmt.Sprintf("%s:%d", sess.IP(0), tor.Port())
	dial := func(k int, o speer.Opts) *speer.Peer {
		for try := 0; try < 40; try++ {
			p, err := speer.Dial(sess.IP(k), clientAddr, o, 2*time.Second)
			if err == nil {
				pmu.Lock()
				allPeers = append(allPeers, p)
				pmu.Unlock()
				return p
			}
			if !strings.Contains(err.Error(), "refused") {
				return nil
			}
			time.Sleep(25 * time.Millisecond)
		}
		return nil
	}
	for i, st := range advs {
		if st.dialing {
			if p := dial(10+i, mkOpts(10+i, i%2 == 1)); p != nil {
				s := speer.Serve(p, st.b, F, int(l.PieceLength), infoBytes)
				s.Mask = l.PadMask()
				pmu.Lock()
				st.srv = append(st.srv, s)
				pmu.Unlock()
				if st.b.CloseOnPieceDone {
					go probe(i, st, s)
				}
			}
		}
	}
	// observer: a leecher with no pieces, so the client sends it a have for every piece it obtains
	observer := dial(30, mkOpts(30, true))
	if observer != nil {
		observer.Send(refwire.Msg{Kind: "havenone"})
	}

	// commands
	t0 := time.Now()
	cmdDone := make(chan struct{})
	stopCmds := 0
	go func() {
		defer close(cmdDone)
		cmds := append([]Cmd(nil), c.Cmds...)
		for i := 1; i < len(cmds); i++ {
			for k := i; k > 0 && cmds[k].AtMs < cmds[k-1].AtMs; k-- {
				cmds[k], cmds[k-1] = cmds[k-1], cmds[k]
			}
		}
		for _, cm := range cmds {
			time.Sleep(time.Until(t0.Add(time.Duration(cm.AtMs) * time.Millisecond)))
			if cm.Op == "stop" {
				stopCmds++
				_ = tor.Stop()
			} else {
				_ = tor.Start()
				for _, a := range addrs {
					_ = tor.AddPeer(a)
				}
			}
		}
		// the history always ends started
		time.Sleep(30 * time.Millisecond)
		_ = tor.Start()
		for _, a := range addrs {
			_ = tor.AddPeer(a)
		}
	}()

	// sample Stats while waiting for completion
	deadline := time.Now().Add(20 * time.Second)
	completed := false
	restarts := 0
	<-cmdDone
	for time.Now().Before(deadline) {
		st := tor.Stats()
		nDone, _ := j.complete()
		if int(st.Pieces.Have) > nDone {
			return core.Failf("Stats reports %d pieces downloaded while only %d pieces are completely and correctly on the storage", st.Pieces.Have, nDone)
		}
		select {
		case <-tor.NotifyComplete():
			completed = true
		default:
		}
		if completed {
			break
		}
		if st.Status == torrent.Stopped {
			// the torrent stopped itself (an injected write error): start it again, as a user would
			restarts++
			_ = tor.Start()
			for _, a := range addrs {
				_ = tor.AddPeer(a)
			}
		}
		time.Sleep(15 * time.Millisecond)
	}
	j.mu.Lock()
	v := j.violation
	j.mu.Unlock()
	if v != "" {
		return core.Failf("%s", v)
	}
	lab := map[string]bool{}
	for drained := false; !drained; {
		select {
		case msg := <-probeC:
			lab["reconnect-probe"] = true
			if msg != "" {
				return core.Failf("%s", msg)
			}
		default:
			drained = true
		}
	}
	if completed {
		lab["completed"] = true
		nDone, done := j.complete()
		if nDone != l.NumPieces() {
			var missing []int
			for i, d := range done {
				if !d {
					missing = append(missing, i)
				}
			}
			return core.Failf("torrent reports completion but pieces %v are not completely and correctly on the storage", missing)
		}
	}
	// have / bitfield messages seen by scripted peers: only for pieces already complete on storage when the message arrived
	pmu.Lock()
	peers := append([]*speer.Peer(nil), allPeers...)
	pmu.Unlock()
	j.mu.Lock()
	doneAt := append([]time.Time(nil), j.doneAt...)
	j.mu.Unlock()
	claims := 0
	check := func(idx int, at time.Time, what string) string {
		if idx >= len(doneAt) {
			return fmt.Sprintf("%s announces piece %d of a %d-piece torrent", what, idx, len(doneAt))
		}
		claims++
		if doneAt[idx].IsZero() || doneAt[idx].After(at.Add(2*time.Millisecond)) {
			return fmt.Sprintf("%s for piece %d received although the piece was not (yet) completely written with verified data", what, idx)
		}
		return ""
	}
	for _, p := range peers {
		for _, e := range p.Log() {
			if e.Out {
				continue
			}
			switch e.Msg.Kind {
			case "have":
				if s := check(int(e.Msg.Index), e.At, "have"); s != "" {
					return core.Failf("%s", s)
				}
			case "bitfield":
				for i := 0; i < len(e.Msg.Data)*8; i++ {
					if e.Msg.Data[i/8]&(0x80>>(i%8)) != 0 {
						if s := check(i, e.At, "bitfield bit"); s != "" {
							return core.Failf("%s", s)
						}
					}
				}
			case "haveall":
				for i := range doneAt {
					if s := check(i, e.At, "have-all"); s != "" {
						return core.Failf("%s", s)
					}
				}
			}
		}
	}
	// a peer that supplied a whole corrupted piece is disconnected and not accepted again
	for i, st := range advs {
		if !st.b.CorruptAll {
			continue
		}
		pmu.Lock()
		srvs := append([]*speer.Server(nil), st.srv...)
		pmu.Unlock()
		blocksPerPiece := (int(l.PieceLength) + 16383) / 16384
		for _, s := range srvs {
			served, _, _, _, _, _ := s.Snapshot()
			if served >= 2*blocksPerPiece+2 && !s.P.Closed() {
				// allow for the hash check to finish
				time.Sleep(300 * time.Millisecond)
				if served2, _, _, _, _, _ := s.Snapshot(); !s.P.Closed() && served2 > served {
					return core.Failf("adversary %d corrupted every block it sent (%d blocks, %d per piece) and is still connected and being asked for more", i, served2, blocksPerPiece)
				}
			}
			if s.P.Closed() && served >= blocksPerPiece {
				lab["banned-peer-probe"] = true
				if p, err := speer.Dial(st.ip, clientAddr, mkOpts(10+i, false), 700*time.Millisecond); err == nil {
					p.Close()
					if completed {
						continue // a seeding client has no use for the ban any more; not asserted
					}
					return core.Failf("adversary %d supplied a piece that failed the hash check and was disconnected, but a new connection from the same address %s was accepted", i, st.ip)
				}
			}
		}
	}
	if !completed {
		lab["not-completed"] = true
	}
	// resume data after close
	closed = true
	if err := ses.Close(); err != nil {
		return core.Failf("close: %v", err)
	}
	j.mu.Lock()
	v = j.violation
	j.mu.Unlock()
	if v != "" {
		return core.Failf("%s", v)
	}
	var spec *boltdbresumer.Spec
	db, err := bbolt.Open(cfg.Database, 0o600, &bbolt.Options{Timeout: time.Second})
	if err != nil {
		return core.Failf("resume database cannot be reopened: %v", err)
	}
	defer db.Close()
	rs, err := boltdbresumer.New(db, []byte("torrents"))
	if err != nil {
		return core.Failf("resumer: %v", err)
	}
	spec, err = rs.Read(tor.ID())
	if err != nil {
		return core.Failf("resume record unreadable: %v", err)
	}
	_, done := j.complete()
	for i := range done {
		if i/8 < len(spec.Bitfield) && spec.Bitfield[i/8]&(0x80>>(i%8)) != 0 && !done[i] {
			return core.Failf("resume data claims piece %d, which is not completely and correctly on the storage", i)
		}
	}
	if stopCmds > 0 {
		lab["stop-start"] = true
	}
	if restarts > 0 {
		lab["restart-after-write-error"] = true
	}
	for _, b := range c.Adversaries {
		switch {
		case b.CorruptAll:
			lab["corrupt-all"] = true
		case len(b.CorruptBlocks) > 0:
			lab["corrupt-some"] = true
		case b.ShortBlocks:
			lab["truncated"] = true
		case b.WrongOffset:
			lab["wrong-offset"] = true
		case b.Unrequested:
			lab["unrequested"] = true
		case b.DuplicateEvery > 0:
			lab["duplicates"] = true
		}
	}
	if c.Honest >= 2 {
		lab["multi-honest"] = true
	}
	if c.WebSeed >= 2 {
		lab["bad-webseed"] = true
	}
	for k := range lab {
		res.Labels = append(res.Labels, k)
	}
	j.mu.Lock()
	res.Nontrivial = j.writes > 0 && claims > 0
	j.mu.Unlock()
	return res
}

func TestIntegrity(t *testing.T) { core.RunChild(t, "c01.integrity", genInt, runInt, 70*time.Second) }
