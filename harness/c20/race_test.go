package c20

import (
	"bytes"
	"encoding/json"
	"fmt"
	"net"
	"os"
	"os/exec"
	"path/filepath"
	"regexp"
	"sort"
	"strings"
	"sync"
	"testing"
	"time"

	"github.com/cenkalti/rain/v2/internal/logger"
	"github.com/cenkalti/rain/v2/rainrpc"
	"github.com/cenkalti/rain/v2/torrent"
	"github.com/cenkalti/rain/v2/verifharness/core"
	"github.com/cenkalti/rain/v2/verifharness/model"
	"github.com/cenkalti/rain/v2/verifharness/sess"
	"github.com/cenkalti/rain/v2/verifharness/strk"
	"pgregory.net/rapid"
)

func TestMain(m *testing.M) {
	if os.Getenv("VERIF_DEBUG") == "" {
		logger.Disable()
	}
	if os.Getenv("VERIF_C20_ROLE") == "stress" {
		var c RaceCase
		b, _ := os.ReadFile(os.Getenv("VERIF_C20_CASE"))
		if err := json.Unmarshal(b, &c); err != nil {
			fmt.Fprintln(os.Stderr, "c20 child:", err)
			os.Exit(2)
		}
		stress(c, os.Getenv("VERIF_C20_DIR"))
		os.Exit(0)
	}
	os.Exit(m.Run())
}

// RaceCase: op lists for several client goroutines that hammer the public API and the RPC interface while torrents transfer.
type RaceCase struct {
	Layouts  []model.Layout `json:"layouts"`
	Clients  [][]string     `json:"clients"` // per goroutine: op names, executed in a loop for DurMs
	DurMs    int            `json:"dur_ms"`
	ResumeMs int            `json:"resume_ms"`
}

var apiOps = []string{"stats", "peers", "trackers", "webseeds", "files", "filestats", "magnet", "torrentfile", "port", "name", "addpeer-ip", "addpeer-host", "addtracker",
	"start", "stop", "verify", "announce", "sessionstats", "list", "add", "remove", "stale-handle",
	"rpc-stats", "rpc-peers", "rpc-list", "rpc-magnet", "rpc-files", "rpc-filestats", "rpc-trackers", "rpc-sessionstats", "rpc-addpeer", "rpc-start", "rpc-stop", "rpc-torrent", "rpc-addtracker"}

func genRace(t *rapid.T) RaceCase {
	c := RaceCase{DurMs: 2500, ResumeMs: 2}
	for i := 0; i < 2; i++ {
		c.Layouts = append(c.Layouts, model.GenLayout(t, model.LayoutOpts{MaxTotal: 400 << 10, MaxPieces: 48, MaxFiles: 4, BigPieces: true}))
	}
	n := rapid.IntRange(4, 10).Draw(t, "nclients")
	for i := 0; i < n; i++ {
		c.Clients = append(c.Clients, rapid.SliceOfN(rapid.SampledFrom(apiOps), 3, 10).Draw(t, "ops"))
	}
	return c
}

type opReport struct {
	Executed  map[string]int `json:"executed"`
	Hang      string         `json:"hang,omitempty"`
	Transfers int            `json:"transfers"`
}

// stress runs in the race-instrumented child.
func stress(c RaceCase, dir string) {
	rep := opReport{Executed: map[string]int{}}
	var mu sync.Mutex
	defer func() {
		b, _ := json.Marshal(rep)
		_ = os.WriteFile(filepath.Join(dir, "report.json"), b, 0o644)
	}()
	seedCfg := sess.Config(filepath.Join(dir, "seed"))
	seedCfg.PortBegin, seedCfg.PortEnd = 21000, 21050
	leechCfg := sess.Config(filepath.Join(dir, "leech"))
	leechCfg.ResumeWriteInterval = time.Duration(c.ResumeMs) * time.Millisecond
	leechCfg.RPCEnabled, leechCfg.RPCHost, leechCfg.RPCPort = true, sess.IP(0), 17246
	leechCfg.TrackerStopTimeout = 100 * time.Millisecond
	// seeder content on disk
	type tinfo struct {
		mi   []byte
		id   string
		port int
	}
	var infos []tinfo
	seeder, err := torrent.NewSession(seedCfg)
	if err != nil {
		rep.Hang = "seeder session: " + err.Error()
		return
	}
	defer seeder.Close()
	for i := range c.Layouts {
		l := &c.Layouts[i]
		l.Name = fmt.Sprintf("t%d", i)
		F := l.Flat()
		id := fmt.Sprintf("seed%d", i)
		root := filepath.Join(seedCfg.DataDir, id)
		offs := l.FileOffsets()
		for k, f := range l.Files {
			if f.Pad != 0 {
				continue
			}
			p := filepath.Join(root, l.ExpectedPath(k))
			_ = os.MkdirAll(filepath.Dir(p), 0o755)
			_ = os.WriteFile(p, F[offs[k]:offs[k]+f.Length], 0o644)
		}
		mi := l.Metainfo(F, nil, nil)
		t, err := seeder.AddTorrent(bytes.NewReader(mi), &torrent.AddTorrentOptions{ID: id})
		if err != nil {
			rep.Hang = "seeder add: " + err.Error()
			return
		}
		infos = append(infos, tinfo{mi: mi, id: fmt.Sprintf("leech%d", i), port: t.Port()})
	}
	// a tracker that answers every announce with the seeder's address
	trk, err := strk.NewHTTP(sess.IP(50)+":0", func(n int, r strk.HTTPReq) []byte {
		var peers []byte
		for _, ti := range infos {
			ip := net.ParseIP(sess.IP(0)).To4()
			peers = append(peers, ip...)
			peers = append(peers, byte(ti.port>>8), byte(ti.port))
		}
		return strk.OKResponse(model.Benc(map[string]any{"interval": int64(1), "min interval": int64(1), "peers": peers}))
	})
	if err != nil {
		rep.Hang = "tracker: " + err.Error()
		return
	}
	defer trk.Close()
	leecher, err := torrent.NewSession(leechCfg)
	if err != nil {
		rep.Hang = "leecher session: " + err.Error()
		return
	}
	defer leecher.Close()
	for i, ti := range infos {
		t, err := leecher.AddTorrent(bytes.NewReader(ti.mi), &torrent.AddTorrentOptions{ID: ti.id})
		if err != nil {
			rep.Hang = "leecher add: " + err.Error()
			return
		}
		_ = t.AddTracker(trk.URL())
		_ = t.AddPeer(fmt.Sprintf("%s:%d", sess.IP(0), infos[i].port))
	}
	rpc := rainrpc.NewClient(fmt.Sprintf("http://%s:%d", sess.IP(0), 17246))
	rpc.SetTimeout(15 * time.Second)
	deadline := time.Now().Add(time.Duration(c.DurMs) * time.Millisecond)
	var wg sync.WaitGroup
	call := func(name string, f func()) bool {
		done := make(chan struct{})
		go func() { defer close(done); f() }()
		select {
		case <-done:
			mu.Lock()
			rep.Executed[name]++
			mu.Unlock()
			return true
		case <-time.After(20 * time.Second):
			mu.Lock()
			if rep.Hang == "" {
				rep.Hang = name + " did not return within 20 s"
			}
			mu.Unlock()
			return false
		}
	}
	for ci, ops := range c.Clients {
		wg.Add(1)
		go func(ci int, ops []string) {
			defer wg.Done()
			var extra []string // torrents added by this goroutine (unique ids: concurrent add/remove of one id is C14's subject)
			for k := 0; time.Now().Before(deadline); k++ {
				op := ops[k%len(ops)]
				ti := infos[(ci+k)%len(infos)]
				t := leecher.GetTorrent(ti.id)
				seedAddr := fmt.Sprintf("%s:%d", sess.IP(0), ti.port)
				ok := true
				if t == nil {
					continue
				}
				switch op {
				case "stats":
					ok = call(op, func() { _ = t.Stats() })
				case "peers":
					ok = call(op, func() { _ = t.Peers() })
				case "trackers":
					ok = call(op, func() { _ = t.Trackers() })
				case "webseeds":
					ok = call(op, func() { _ = t.Webseeds() })
				case "files":
					ok = call(op, func() { _, _ = t.Files() })
				case "filestats":
					ok = call(op, func() { _, _ = t.FileStats() })
				case "magnet":
					ok = call(op, func() { _, _ = t.Magnet() })
				case "torrentfile":
					ok = call(op, func() { _, _ = t.Torrent() })
				case "port":
					ok = call(op, func() { _ = t.Port() })
				case "name":
					ok = call(op, func() { _ = t.Name(); _ = t.InfoHash(); _ = t.AddedAt(); _ = t.ID() })
				case "addpeer-ip":
					ok = call(op, func() { _ = t.AddPeer(seedAddr) })
				case "addpeer-host":
					ok = call(op, func() { _ = t.AddPeer(fmt.Sprintf("localhost:%d", ti.port)) })
				case "addtracker":
					ok = call(op, func() { _ = t.AddTracker(fmt.Sprintf("http://%s:9/announce%d", sess.IP(70), k%3)) })
				case "start":
					ok = call(op, func() { _ = t.Start(); _ = t.AddPeer(seedAddr) })
				case "stop":
					ok = call(op, func() { _ = t.Stop() })
				case "verify":
					ok = call(op, func() { _ = t.Verify() })
				case "announce":
					ok = call(op, func() { t.Announce() })
				case "sessionstats":
					ok = call(op, func() { _ = leecher.Stats() })
				case "list":
					ok = call(op, func() { _ = leecher.ListTorrents() })
				case "remove":
					if n := len(extra); n > 0 {
						id := extra[n-1]
						extra = extra[:n-1]
						ok = call(op, func() { _ = leecher.RemoveTorrent(id, false) })
					}
				case "stale-handle":
					// a handle kept by the caller after the torrent was removed must stay harmless
					id := fmt.Sprintf("x%d-%d", ci, k)
					ok = call(op, func() {
						nt, err := leecher.AddTorrent(bytes.NewReader(ti.mi), &torrent.AddTorrentOptions{ID: id})
						if err != nil {
							return
						}
						_ = nt.AddPeer(seedAddr)
						_ = leecher.RemoveTorrent(id, false)
						_ = nt.Stats()
						_ = nt.Verify()
						_ = nt.AddTracker(fmt.Sprintf("http://%s:9/stale", sess.IP(70)))
						_ = nt.Start()
						_ = nt.Stop()
						_, _ = nt.Magnet()
						_ = nt.Port()
					})
				case "add":
					id := fmt.Sprintf("x%d-%d", ci, k)
					ok = call(op, func() {
						if nt, err := leecher.AddTorrent(bytes.NewReader(ti.mi), &torrent.AddTorrentOptions{ID: id}); err == nil {
							_ = nt.AddPeer(seedAddr)
							extra = append(extra, id)
						}
					})
				case "rpc-stats":
					ok = call(op, func() { _, _ = rpc.GetTorrentStats(ti.id) })
				case "rpc-peers":
					ok = call(op, func() { _, _ = rpc.GetTorrentPeers(ti.id) })
				case "rpc-list":
					ok = call(op, func() { _, _ = rpc.ListTorrents() })
				case "rpc-magnet":
					ok = call(op, func() { _, _ = rpc.GetMagnet(ti.id) })
				case "rpc-files":
					ok = call(op, func() { _, _ = rpc.GetTorrentFiles(ti.id) })
				case "rpc-filestats":
					ok = call(op, func() { _, _ = rpc.GetTorrentFileStats(ti.id) })
				case "rpc-trackers":
					ok = call(op, func() { _, _ = rpc.GetTorrentTrackers(ti.id) })
				case "rpc-sessionstats":
					ok = call(op, func() { _, _ = rpc.GetSessionStats() })
				case "rpc-addpeer":
					ok = call(op, func() { _ = rpc.AddPeer(ti.id, seedAddr) })
				case "rpc-start":
					ok = call(op, func() { _ = rpc.StartTorrent(ti.id) })
				case "rpc-stop":
					ok = call(op, func() { _ = rpc.StopTorrent(ti.id) })
				case "rpc-torrent":
					ok = call(op, func() { _, _ = rpc.GetTorrent(ti.id) })
				case "rpc-addtracker":
					ok = call(op, func() { _ = rpc.AddTracker(ti.id, fmt.Sprintf("http://%s:9/rpc%d", sess.IP(70), k%3)) })
				}
				if !ok {
					return
				}
			}
		}(ci, ops)
	}
	wg.Wait()
	for _, ti := range infos {
		if t := leecher.GetTorrent(ti.id); t != nil {
			if st := t.Stats(); st.Bytes.Downloaded > 0 {
				rep.Transfers++
			}
		}
	}
}

var frameRe = regexp.MustCompile(`(?m)^  (\S+)\(.*\)\n`)

// signatures extracts, for every race report, the unordered pair of innermost rain frames of the two accesses.
func signatures(log string) map[string]string {
	out := map[string]string{}
	for _, rep := range strings.Split(log, "==================") {
		if !strings.Contains(rep, "WARNING: DATA RACE") {
			continue
		}
		// the two access stacks are the first two blocks starting with "Read at"/"Write at"/"Previous ..."
		var accs []string
		blocks := regexp.MustCompile(`(?m)^(Read at|Write at|Previous read at|Previous write at|Atomic)[^\n]*\n`).FindAllStringIndex(rep, -1)
		for i, b := range blocks {
			end := len(rep)
			if i+1 < len(blocks) {
				end = blocks[i+1][0]
			} else if g := strings.Index(rep[b[1]:], "\nGoroutine "); g >= 0 {
				end = b[1] + g
			}
			stack := rep[b[1]:end]
			fn := "?"
			for _, m := range frameRe.FindAllStringSubmatch(stack, -1) {
				if strings.Contains(m[1], "cenkalti/rain/v2/") && !strings.Contains(m[1], "verifharness") {
					fn = strings.TrimPrefix(m[1], "github.com/cenkalti/rain/v2/")
					break
				}
			}
			accs = append(accs, fn)
		}
		if len(accs) >= 2 {
			pair := []string{accs[0], accs[1]}
			sort.Strings(pair)
			sig := pair[0] + " <-> " + pair[1]
			if _, ok := out[sig]; !ok {
				out[sig] = rep
			}
		}
	}
	return out
}

func runRace(c RaceCase) core.Result {
	dir, cleanup := sess.Scratch("c20")
	defer cleanup()
	cf := filepath.Join(dir, "case.json")
	b, _ := json.Marshal(c)
	_ = os.WriteFile(cf, b, 0o644)
	cmd := exec.Command(os.Args[0], "-test.run", "^$")
	cmd.Env = append(os.Environ(), "VERIF_C20_ROLE=stress", "VERIF_C20_CASE="+cf, "VERIF_C20_DIR="+dir, "TMPDIR="+dir,
		"GORACE=halt_on_error=0 exitcode=0 history_size=3 log_path="+filepath.Join(dir, "race"))
	var out bytes.Buffer
	cmd.Stdout, cmd.Stderr = &out, &out
	if err := cmd.Start(); err != nil {
		panic(err)
	}
	done := make(chan error, 1)
	go func() { done <- cmd.Wait() }()
	var werr error
	select {
	case werr = <-done:
	case <-time.After(90 * time.Second):
		_ = cmd.Process.Signal(os.Interrupt)
		_ = cmd.Process.Kill()
		<-done
		return core.Failf("stress child did not finish within 90 s (lock-up); output tail:\n%s", out.String()[max(0, out.Len()-3000):])
	}
	if werr != nil {
		return core.Failf("stress child died (%v):\n%s", werr, core.Interesting(out.String(), 5000))
	}
	var rep opReport
	rb, err := os.ReadFile(filepath.Join(dir, "report.json"))
	if err != nil || json.Unmarshal(rb, &rep) != nil {
		return core.Failf("stress child left no report:\n%s", out.String()[max(0, out.Len()-2000):])
	}
	if rep.Hang != "" {
		return core.Failf("lock-up: %s (executed so far: %v)", rep.Hang, rep.Executed)
	}
	var raceLog string
	matches, _ := filepath.Glob(filepath.Join(dir, "race.*"))
	for _, m := range matches {
		if lb, err := os.ReadFile(m); err == nil {
			raceLog += string(lb)
		}
	}
	res := core.Result{Counts: map[string]int{}}
	distinctOps := 0
	for k, v := range rep.Executed {
		res.Counts["op:"+k] = v
		distinctOps++
	}
	res.Counts["transfers"] = rep.Transfers
	res.Nontrivial = distinctOps >= 6 && rep.Transfers > 0
	sigs := signatures(raceLog)
	var unknown []string
	for sig, text := range sigs {
		if id := core.OpenRaceFinding(sig); id != "" {
			res.Counts["known-race:"+id]++
			continue
		}
		if len(text) > 3500 {
			text = text[:3500] + "\n..."
		}
		unknown = append(unknown, "DATA RACE "+sig+"\n"+text)
	}
	sort.Strings(unknown)
	if len(unknown) > 0 {
		return core.Failf("%d data race(s) not listed as known findings:\n%s", len(unknown), strings.Join(unknown, "\n"))
	}
	res.Sample = map[string]any{"clients": c.Clients, "executed": rep.Executed, "transfers": rep.Transfers}
	return res
}

func TestRace(t *testing.T) { core.Run(t, "c20.race", genRace, runRace) }
