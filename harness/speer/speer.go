// Package speer is a scripted BitTorrent peer built on the independent codecs (refwire, refmse). It records
// every message it sends and receives in stream order and offers the barrier primitive described in DESIGN.md.
package speer

import (
	"bufio"
	"errors"
	"fmt"
	"io"
	"net"
	"strings"
	"sync"
	"time"

	"github.com/cenkalti/rain/v2/verifharness/refmse"
	"github.com/cenkalti/rain/v2/verifharness/refwire"
)

// Our extended message ids (what we advertise in the extension handshake).
const (
	OurMetaID = 3
	OurPexID  = 4
)

// Event is one logged message.
type Event struct {
	Seq  int
	Out  bool // sent by us
	Msg  refwire.Msg
	At   time.Time
	Size int // frame body size
}

// Opts configures the handshake.
type Opts struct {
	InfoHash     [20]byte
	PeerID       [20]byte
	Fast         bool
	Ext          bool
	DHT          bool
	MSE          *refmse.Opts // non-nil: wrap in MSE as initiator (Dial) or receiver (Accept)
	MetadataSize int64        // advertised in our extension handshake (0 = none)
	NoExtHS      bool         // do not send the extension handshake automatically
	Reqq         int64
	AdvertisePex bool
	YourIP       []byte
	// MSEOptional (Accept only, with MSE set): look at the first bytes and take a plaintext handshake as well.
	MSEOptional bool
}

type peekConn struct {
	net.Conn
	r *bufio.Reader
}

func (p peekConn) Read(b []byte) (int, error) { return p.r.Read(b) }

// Peer is one connection.
type Peer struct {
	Conn      net.Conn
	rw        io.ReadWriter
	Opts      Opts
	Reserved  [8]byte // client's reserved bits
	ClientID  [20]byte
	Encrypted uint32 // 0 plain handshake, 1 MSE/plaintext, 2 MSE/RC4

	mu       sync.Mutex
	cond     *sync.Cond
	log      []Event
	seq      int
	closed   bool
	readErr  error
	wmu      sync.Mutex
	ClientM  map[string]int // client's extension ids from its extension handshake
	ClientV  string
	barrierN uint32
	next     int // index into log of the next received event not yet consumed by Recv
}

func (o *Opts) reserved() [8]byte { return refwire.ReservedBits(o.Ext, o.Fast, o.DHT) }

// Dial connects from localIP (may be "") to addr and performs the handshakes.
func Dial(localIP, addr string, o Opts, timeout time.Duration) (*Peer, error) {
	d := net.Dialer{Timeout: timeout}
	if localIP != "" {
		d.LocalAddr = &net.TCPAddr{IP: net.ParseIP(localIP)}
	}
	c, err := d.Dial("tcp4", addr)
	if err != nil {
		return nil, err
	}
	p, err := handshake(c, o, true, timeout)
	if err != nil {
		c.Close()
		return nil, err
	}
	return p, nil
}

// DialPatient is Dial for honest scripted peers whose failure to connect would be held against the client: it waits for
// the client's listener to come up ("refused") and gives a handshake that timed out two more chances with longer
// deadlines (a loaded machine is slow, not wrong).
func DialPatient(localIP, addr string, o Opts) (*Peer, error) {
	var p *Peer
	var err error
	slow := 0
	for try := 0; try < 40; try++ {
		p, err = Dial(localIP, addr, o, time.Duration(2+4*slow)*time.Second)
		if err == nil {
			return p, nil
		}
		msg := err.Error()
		if slow < 2 && (strings.Contains(msg, "timeout") || strings.Contains(msg, "deadline")) {
			slow++
			continue
		}
		if !strings.Contains(msg, "refused") {
			return nil, err
		}
		time.Sleep(25 * time.Millisecond)
	}
	return nil, err
}

// Accept performs the handshakes on an accepted connection (the client dialed us).
func Accept(c net.Conn, o Opts, timeout time.Duration) (*Peer, error) {
	p, err := handshake(c, o, false, timeout)
	if err != nil {
		c.Close()
		return nil, err
	}
	return p, nil
}

func handshake(c net.Conn, o Opts, initiator bool, timeout time.Duration) (*Peer, error) {
	_ = c.SetDeadline(time.Now().Add(timeout))
	p := &Peer{Conn: c, rw: c, Opts: o, ClientM: map[string]int{}}
	p.cond = sync.NewCond(&p.mu)
	hs := refwire.Handshake(o.reserved(), o.InfoHash, o.PeerID)
	readHS := func() error {
		b := make([]byte, 68)
		if _, err := io.ReadFull(p.rw, b); err != nil {
			return fmt.Errorf("reading handshake: %w", err)
		}
		res, ih, id, err := refwire.ParseHandshake(b)
		if err != nil {
			return err
		}
		if ih != o.InfoHash {
			return errors.New("client answered with a different info-hash")
		}
		p.Reserved, p.ClientID = res, id
		return nil
	}
	if initiator {
		if o.MSE != nil {
			mo := *o.MSE
			mo.SKeys = [][]byte{o.InfoHash[:]}
			mc, err := refmse.Initiate(c, mo)
			if err != nil {
				return nil, fmt.Errorf("mse: %w", err)
			}
			p.rw, p.Encrypted = mc, mc.Selected
		}
		if _, err := p.rw.Write(hs); err != nil {
			return nil, err
		}
		if err := readHS(); err != nil {
			return nil, err
		}
	} else {
		useMSE := o.MSE != nil
		if useMSE && o.MSEOptional {
			br := bufio.NewReader(c)
			head, err := br.Peek(20)
			if err != nil {
				return nil, err
			}
			if head[0] == 19 && string(head[1:20]) == "BitTorrent protocol" {
				useMSE = false
			}
			p.rw = peekConn{c, br}
		}
		if useMSE {
			mo := *o.MSE
			mo.SKeys = [][]byte{o.InfoHash[:]}
			mc, err := refmse.Receive(p.rw, mo)
			if err != nil {
				return nil, fmt.Errorf("mse: %w", err)
			}
			p.rw, p.Encrypted = mc, mc.Selected
		}
		if err := readHS(); err != nil {
			return nil, err
		}
		if _, err := p.rw.Write(hs); err != nil {
			return nil, err
		}
	}
	_ = c.SetDeadline(time.Time{})
	go p.reader()
	if o.Ext && p.Reserved[5]&0x10 != 0 && !o.NoExtHS {
		m := map[string]int{"ut_metadata": OurMetaID}
		if o.AdvertisePex {
			m["ut_pex"] = OurPexID
		}
		hs := refwire.Msg{Kind: "ext-handshake", M: m, V: "speer 1", MetadataSize: o.MetadataSize, YourIP: o.YourIP}
		if o.Reqq > 0 {
			hs.Reqq, hs.HasReqq = o.Reqq, true
		}
		p.Send(hs)
	}
	return p, nil
}

// ClientFast / ClientExt report the client's reserved bits.
func (p *Peer) ClientFast() bool { return p.Reserved[7]&0x04 != 0 }
func (p *Peer) ClientExt() bool  { return p.Reserved[5]&0x10 != 0 }

func (p *Peer) reader() {
	for {
		body, err := refwire.ReadFrame(p.rw, 1<<21)
		if err != nil {
			p.mu.Lock()
			p.closed, p.readErr = true, err
			p.cond.Broadcast()
			p.mu.Unlock()
			return
		}
		m, derr := refwire.Decode(body, OurMetaID, OurPexID)
		if derr != nil {
			m = refwire.Msg{Kind: "undecodable", Data: body}
		}
		p.mu.Lock()
		if m.Kind == "ext-handshake" {
			for k, v := range m.M {
				p.ClientM[k] = v
			}
			p.ClientV = m.V
		}
		p.log = append(p.log, Event{Seq: p.seq, Msg: m, At: time.Now(), Size: len(body)})
		p.seq++
		p.cond.Broadcast()
		p.mu.Unlock()
	}
}

// Send writes one message.
func (p *Peer) Send(m refwire.Msg) error { return p.SendRaw(refwire.Encode(m), &m) }

// SendRaw writes arbitrary bytes (m, if non-nil, is logged).
func (p *Peer) SendRaw(b []byte, m *refwire.Msg) error {
	p.wmu.Lock()
	defer p.wmu.Unlock()
	p.mu.Lock()
	ev := Event{Seq: p.seq, Out: true, At: time.Now(), Size: len(b)}
	if m != nil {
		ev.Msg = *m
	} else {
		ev.Msg = refwire.Msg{Kind: "rawbytes", Data: b}
	}
	p.log = append(p.log, ev)
	p.seq++
	p.mu.Unlock()
	_ = p.Conn.SetWriteDeadline(time.Now().Add(10 * time.Second))
	_, err := p.rw.Write(b)
	return err
}

// Close the connection.
func (p *Peer) Close() { p.Conn.Close() }

// Closed reports whether the client (or we) closed the connection.
func (p *Peer) Closed() bool { p.mu.Lock(); defer p.mu.Unlock(); return p.closed }

// Log returns a copy of the event log.
func (p *Peer) Log() []Event { p.mu.Lock(); defer p.mu.Unlock(); return append([]Event(nil), p.log...) }

// Recv returns the next received message not yet consumed, waiting up to timeout. ok=false on timeout or close.
func (p *Peer) Recv(timeout time.Duration) (refwire.Msg, bool) {
	deadline := time.Now().Add(timeout)
	p.mu.Lock()
	defer p.mu.Unlock()
	for {
		for p.next < len(p.log) {
			e := p.log[p.next]
			p.next++
			if !e.Out {
				return e.Msg, true
			}
		}
		if p.closed {
			return refwire.Msg{}, false
		}
		d := time.Until(deadline)
		if d <= 0 {
			return refwire.Msg{}, false
		}
		t := time.AfterFunc(d, func() { p.mu.Lock(); p.cond.Broadcast(); p.mu.Unlock() })
		p.cond.Wait()
		t.Stop()
	}
}

// WaitFor waits until pred holds for some received message at log index >= from; returns its index.
func (p *Peer) WaitFor(from int, timeout time.Duration, pred func(refwire.Msg) bool) (int, bool) {
	deadline := time.Now().Add(timeout)
	p.mu.Lock()
	defer p.mu.Unlock()
	i := from
	for {
		for ; i < len(p.log); i++ {
			if !p.log[i].Out && pred(p.log[i].Msg) {
				return i, true
			}
		}
		if p.closed {
			return -1, false
		}
		d := time.Until(deadline)
		if d <= 0 {
			return -1, false
		}
		t := time.AfterFunc(d, func() { p.mu.Lock(); p.cond.Broadcast(); p.mu.Unlock() })
		p.cond.Wait()
		t.Stop()
	}
}

// LogLen is the current length of the log (use as `from`).
func (p *Peer) LogLen() int { p.mu.Lock(); defer p.mu.Unlock(); return len(p.log) }

// Barrier sends a ut_metadata request for a unique out-of-range piece addressed to the client's ut_metadata
// id and waits for the matching reject. When it returns true, every message we sent before the barrier has been
// fully processed by the client's event loop and every message the client queued before the reject is in the
// log before the returned index. Needs the extension protocol on both sides and the client's extension handshake.
func (p *Peer) Barrier(timeout time.Duration) (int, bool) {
	// wait for the client's extension handshake to learn its ut_metadata id
	if _, ok := p.WaitFor(0, timeout, func(m refwire.Msg) bool { return m.Kind == "ext-handshake" }); !ok {
		return -1, false
	}
	p.mu.Lock()
	id, ok := p.ClientM["ut_metadata"]
	p.barrierN++
	n := 100000 + p.barrierN
	from := len(p.log)
	p.mu.Unlock()
	if !ok || id == 0 {
		return -1, false
	}
	if err := p.Send(refwire.Msg{Kind: "ext-metadata", ExtID: uint8(id), MsgType: 0, Index: n}); err != nil {
		return -1, false
	}
	return p.WaitFor(from, timeout, func(m refwire.Msg) bool { return m.Kind == "ext-metadata" && m.MsgType == 2 && m.Index == n })
}
