package speer

import (
	"bytes"
	"fmt"
	"time"

	"github.com/cenkalti/rain/v2/verifharness/refwire"
)

// LeechAll downloads every data block of the torrent from the client and compares it with F.
// mask marks padding bytes (never requested). Returns "" on success.
func LeechAll(p *Peer, F []byte, pl int, mask []bool, timeout time.Duration) string {
	deadline := time.Now().Add(timeout)
	if p.Opts.Fast && p.ClientFast() {
		p.Send(refwire.Msg{Kind: "havenone"})
	}
	p.Send(refwire.Msg{Kind: "interested"})
	if _, ok := p.WaitFor(0, time.Until(deadline), func(m refwire.Msg) bool { return m.Kind == "unchoke" }); !ok {
		return "honest leecher was never unchoked"
	}
	type blk struct{ i, b, l int }
	var blocks []blk
	np := (len(F) + pl - 1) / pl
	for i := 0; i < np; i++ {
		end := min((i+1)*pl, len(F))
		// runs of non-padding bytes, cut into 16 KiB blocks
		pos := i * pl
		for pos < end {
			if mask != nil && mask[pos] {
				pos++
				continue
			}
			run := pos
			for run < end && (mask == nil || !mask[run]) && run-pos < 16384 {
				run++
			}
			blocks = append(blocks, blk{i, pos - i*pl, run - pos})
			pos = run
		}
	}
	const window = 8
	sent, got := 0, 0
	want := map[[2]int]int{}
	from := 0
	for got < len(blocks) {
		for sent < len(blocks) && sent-got < window {
			b := blocks[sent]
			want[[2]int{b.i, b.b}] = b.l
			p.Send(refwire.Msg{Kind: "request", Index: uint32(b.i), Begin: uint32(b.b), Length: uint32(b.l)})
			sent++
		}
		idx, ok := p.WaitFor(from, time.Until(deadline), func(m refwire.Msg) bool { return m.Kind == "piece" || m.Kind == "choke" || m.Kind == "reject" })
		if !ok {
			return fmt.Sprintf("honest leecher: no answer to its requests (%d of %d blocks received, connection closed: %v)", got, len(blocks), p.Closed())
		}
		from = idx + 1
		m := p.Log()[idx].Msg
		switch m.Kind {
		case "choke", "reject":
			// wait to be unchoked again and re-request everything outstanding
			if m.Kind == "choke" {
				if i2, ok := p.WaitFor(from, time.Until(deadline), func(m refwire.Msg) bool { return m.Kind == "unchoke" }); ok {
					from = i2 + 1
				} else {
					return "honest leecher was choked and never unchoked again"
				}
			}
			sent = got
			continue
		}
		l, ok := want[[2]int{int(m.Index), int(m.Begin)}]
		if !ok || l != len(m.Data) {
			return fmt.Sprintf("honest leecher received piece(%d, %d, %d bytes) it did not ask for", m.Index, m.Begin, len(m.Data))
		}
		base := int(m.Index)*pl + int(m.Begin)
		if !bytes.Equal(m.Data, F[base:base+len(m.Data)]) {
			return fmt.Sprintf("honest leecher received wrong data for piece %d begin %d", m.Index, m.Begin)
		}
		delete(want, [2]int{int(m.Index), int(m.Begin)})
		got++
	}
	return ""
}
