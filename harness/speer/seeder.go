package speer

import (
	"sync"
	"time"

	"github.com/cenkalti/rain/v2/verifharness/refwire"
)

// Behaviour scripts a serving peer. The zero value is an honest full seeder.
type Behaviour struct {
	Have             []bool `json:"have,omitempty"`             // nil = all pieces
	CorruptBlocks    []int  `json:"corrupt_blocks,omitempty"`   // ordinal numbers (0-based) of served blocks whose data is corrupted
	CorruptAll       bool   `json:"corrupt_all,omitempty"`      // every block corrupted
	ChokeAfter       int    `json:"choke_after,omitempty"`      // after this many served blocks: choke, wait ChokeMs, unchoke (repeats)
	ChokeMs          int    `json:"choke_ms,omitempty"`         //
	DisconnectAfter  int    `json:"disconnect_after,omitempty"` // close after this many served blocks (0 = never)
	StallAfter       int    `json:"stall_after,omitempty"`      // after this many served blocks stop answering for StallMs
	StallMs          int    `json:"stall_ms,omitempty"`
	NeverUnchoke     bool   `json:"never_unchoke,omitempty"`
	ShortBlocks      bool   `json:"short_blocks,omitempty"`    // answer with one byte less than requested
	WrongOffset      bool   `json:"wrong_offset,omitempty"`    // answer with begin+1
	Unrequested      bool   `json:"unrequested,omitempty"`     // push blocks nobody asked for
	DuplicateEvery   int    `json:"duplicate_every,omitempty"` // send every k-th block twice
	AllowedFast      []int  `json:"allowed_fast,omitempty"`    // pieces announced as allowed-fast (fast extension only)
	RejectWhenChoked bool   `json:"reject_when_choked,omitempty"`
	// RejectEvery: a fast-extension peer that, while unchoking, answers every k-th request with a reject message
	// (each block at most once; the same request is served when it is sent again). What a client sees when a
	// peer's reject for a request it read while choking crosses the peer's own unchoke.
	RejectEvery int `json:"reject_every,omitempty"`
	// CloseOnPieceDone: close the connection right after the last data byte of some piece has been sent
	// (the client then handles the hash result of that piece with the peer already gone).
	CloseOnPieceDone bool `json:"close_on_piece_done,omitempty"`
	DelayPerBlockMs  int  `json:"delay_per_block_ms,omitempty"` // honest but slow
	// MetaMode scripts the answers to ut_metadata requests: "" honest, garbage (right size, wrong bytes), wrong-total,
	// short-piece, long-piece, dup, forge-after, unrequested, swap-labels, reject, silent, close.
	MetaMode    string `json:"meta_mode,omitempty"`
	MetaDelayMs int    `json:"meta_delay_ms,omitempty"`
}

// Honest reports whether the behaviour never sends wrong data.
func (b *Behaviour) Honest() bool {
	return !b.CorruptAll && len(b.CorruptBlocks) == 0 && !b.ShortBlocks && !b.WrongOffset && !b.Unrequested
}

// Server runs a Behaviour on a Peer.
type Server struct {
	P        *Peer
	B        Behaviour
	F        []byte
	PL       int
	Info     []byte // bencoded info dictionary served over ut_metadata (nil: requests are rejected)
	Mask     []bool // optional: padding mask of F (needed by CloseOnPieceDone to know when a piece is fully supplied)
	sent     map[int]int
	rejected map[[2]int]bool

	mu           sync.Mutex
	Served       int // blocks sent
	Requests     int // requests received
	Outstanding  int // requests received and not answered (while unchoked and not stalled)
	Unchoked     bool
	Interested   bool
	LastRequest  time.Time
	Choked       int // number of choke cycles performed
	MetaRequests int // ut_metadata requests received
	done         chan struct{}
}

func (s *Server) numPieces() int { return (len(s.F) + s.PL - 1) / s.PL }

// Serve starts the serving loop in a goroutine.
func Serve(p *Peer, b Behaviour, F []byte, pl int, info ...[]byte) *Server {
	s := &Server{P: p, B: b, F: F, PL: pl, done: make(chan struct{})}
	if len(info) > 0 {
		s.Info = info[0]
	}
	go s.run()
	return s
}

// Done is closed when the serving loop has ended (connection closed by either side).
func (s *Server) Done() <-chan struct{} { return s.done }

// Snapshot returns counters.
func (s *Server) Snapshot() (served, requests, outstanding int, unchoked, interested bool, lastReq time.Time) {
	s.mu.Lock()
	defer s.mu.Unlock()
	return s.Served, s.Requests, s.Outstanding, s.Unchoked, s.Interested, s.LastRequest
}

func (s *Server) has(i int) bool { return s.B.Have == nil || (i < len(s.B.Have) && s.B.Have[i]) }

func (s *Server) run() {
	defer close(s.done)
	p := s.P
	n := s.numPieces()
	all := true
	for i := 0; i < n; i++ {
		if !s.has(i) {
			all = false
		}
	}
	fast := p.Opts.Fast && p.ClientFast()
	if all && fast {
		p.Send(refwire.Msg{Kind: "haveall"})
	} else {
		bits := make([]byte, (n+7)/8)
		for i := 0; i < n; i++ {
			if s.has(i) {
				bits[i/8] |= 0x80 >> (i % 8)
			}
		}
		p.Send(refwire.Msg{Kind: "bitfield", Data: bits})
	}
	if fast {
		for _, i := range s.B.AllowedFast {
			if i < n {
				p.Send(refwire.Msg{Kind: "allowedfast", Index: uint32(i)})
			}
		}
	}
	sinceChoke := 0
	for {
		m, ok := p.Recv(time.Hour)
		if !ok {
			return
		}
		switch m.Kind {
		case "interested":
			s.mu.Lock()
			s.Interested = true
			s.mu.Unlock()
			if !s.B.NeverUnchoke {
				p.Send(refwire.Msg{Kind: "unchoke"})
				s.mu.Lock()
				s.Unchoked = true
				s.mu.Unlock()
			}
		case "ext-metadata":
			if m.MsgType != 0 {
				continue
			}
			p.mu.Lock()
			cid, ok := p.ClientM["ut_metadata"]
			p.mu.Unlock()
			if !ok {
				continue
			}
			s.mu.Lock()
			s.MetaRequests++
			s.mu.Unlock()
			if s.B.MetaDelayMs > 0 {
				time.Sleep(time.Duration(s.B.MetaDelayMs) * time.Millisecond)
			}
			beg := int(m.Index) * 16384
			if s.Info == nil || beg >= len(s.Info) || s.B.MetaMode == "reject" {
				p.Send(refwire.Msg{Kind: "ext-metadata", ExtID: uint8(cid), MsgType: 2, Index: m.Index})
				continue
			}
			end := min(beg+16384, len(s.Info))
			data := append([]byte(nil), s.Info[beg:end]...)
			out := refwire.Msg{Kind: "ext-metadata", ExtID: uint8(cid), MsgType: 1, Index: m.Index, TotalSize: int64(len(s.Info)), HasTotal: true, Data: data}
			switch s.B.MetaMode {
			case "silent":
				continue
			case "close":
				p.Close()
				return
			case "garbage":
				for k := range out.Data {
					out.Data[k] ^= byte(0x5a + k)
				}
			case "wrong-total":
				out.TotalSize = int64(len(s.Info)) + 7
			case "short-piece":
				if len(out.Data) > 1 {
					out.Data = out.Data[:len(out.Data)-1]
				}
			case "long-piece":
				out.Data = append(out.Data, 'x')
			case "unrequested":
				out.Index = m.Index + 1
			case "swap-labels":
				// the genuine bytes in the genuine order, but the first two (full-size) blocks carry each other's index
				if len(s.Info) > 2*16384 && m.Index <= 1 {
					out.Index = 1 - m.Index
				}
			}
			p.Send(out)
			if s.B.MetaMode == "dup" {
				p.Send(out)
			}
			if s.B.MetaMode == "forge-after" && len(s.Info) > 16384 && m.Index == 0 {
				// the genuine first block, then a forged block with the same index and size
				forged := out
				forged.Data = append([]byte(nil), out.Data...)
				for k := range forged.Data {
					forged.Data[k] ^= byte(0x33 + k)
				}
				p.Send(forged)
			}
		case "notinterested":
			s.mu.Lock()
			s.Interested = false
			s.mu.Unlock()
		case "request":
			s.mu.Lock()
			s.Requests++
			s.LastRequest = time.Now()
			unchoked := s.Unchoked
			s.mu.Unlock()
			idx, beg, ln := int(m.Index), int(m.Begin), int(m.Length)
			allowedFast := false
			for _, af := range s.B.AllowedFast {
				if af == idx {
					allowedFast = true
				}
			}
			if !unchoked && !(fast && allowedFast) {
				if fast {
					p.Send(refwire.Msg{Kind: "reject", Index: m.Index, Begin: m.Begin, Length: m.Length})
				}
				continue
			}
			if idx >= n || !s.has(idx) || ln == 0 || ln > 16384 || idx*s.PL+beg+ln > len(s.F) || beg+ln > s.PL {
				if fast {
					p.Send(refwire.Msg{Kind: "reject", Index: m.Index, Begin: m.Begin, Length: m.Length})
				}
				continue
			}
			if fast && s.B.RejectEvery > 0 {
				s.mu.Lock()
				nreq := s.Requests
				key := [2]int{idx, beg}
				again := s.rejected[key]
				if !again && nreq%s.B.RejectEvery == 0 {
					if s.rejected == nil {
						s.rejected = map[[2]int]bool{}
					}
					s.rejected[key] = true
				}
				rej := !again && nreq%s.B.RejectEvery == 0
				s.mu.Unlock()
				if rej {
					p.Send(refwire.Msg{Kind: "reject", Index: m.Index, Begin: m.Begin, Length: m.Length})
					continue
				}
			}
			if s.B.StallAfter > 0 && s.Served == s.B.StallAfter {
				time.Sleep(time.Duration(s.B.StallMs) * time.Millisecond)
			}
			if s.B.DelayPerBlockMs > 0 {
				time.Sleep(time.Duration(s.B.DelayPerBlockMs) * time.Millisecond)
			}
			data := append([]byte(nil), s.F[idx*s.PL+beg:idx*s.PL+beg+ln]...)
			corrupt := s.B.CorruptAll
			for _, c := range s.B.CorruptBlocks {
				if c == s.Served {
					corrupt = true
				}
			}
			if corrupt {
				data[len(data)/2] ^= 0x55
			}
			out := refwire.Msg{Kind: "piece", Index: m.Index, Begin: m.Begin, Data: data}
			if s.B.ShortBlocks && len(data) > 1 {
				out.Data = data[:len(data)-1]
			}
			if s.B.WrongOffset {
				out.Begin++
			}
			if err := p.Send(out); err != nil {
				return
			}
			if s.B.DuplicateEvery > 0 && (s.Served+1)%s.B.DuplicateEvery == 0 {
				p.Send(out)
			}
			if s.B.Unrequested && s.Served%3 == 0 {
				ui := (idx + 1) % n
				if s.has(ui) {
					l := min(16384, min(s.PL, len(s.F)-ui*s.PL))
					p.Send(refwire.Msg{Kind: "piece", Index: uint32(ui), Begin: 0, Data: append([]byte(nil), s.F[ui*s.PL:ui*s.PL+l]...)})
				}
			}
			s.mu.Lock()
			s.Served++
			served := s.Served
			if s.sent == nil {
				s.sent = map[int]int{}
			}
			s.sent[idx] += ln
			pieceDone := false
			if s.B.CloseOnPieceDone {
				need := 0
				for b := idx * s.PL; b < min((idx+1)*s.PL, len(s.F)); b++ {
					if s.Mask == nil || !s.Mask[b] {
						need++
					}
				}
				pieceDone = s.sent[idx] >= need
			}
			s.mu.Unlock()
			if pieceDone {
				p.Close()
				return
			}
			sinceChoke++
			if s.B.DisconnectAfter > 0 && served >= s.B.DisconnectAfter {
				p.Close()
				return
			}
			if s.B.ChokeAfter > 0 && sinceChoke >= s.B.ChokeAfter {
				sinceChoke = 0
				p.Send(refwire.Msg{Kind: "choke"})
				s.mu.Lock()
				s.Unchoked = false
				s.Choked++
				s.mu.Unlock()
				go func() {
					time.Sleep(time.Duration(s.B.ChokeMs) * time.Millisecond)
					if p.Closed() {
						return
					}
					// the flag first: a request that arrives after the unchoke message was sent must be served
					s.mu.Lock()
					s.Unchoked = true
					s.mu.Unlock()
					p.Send(refwire.Msg{Kind: "unchoke"})
				}()
			}
		}
	}
}
