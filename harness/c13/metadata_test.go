package c13

import (
	"bytes"
	"crypto/sha1"
	"encoding/hex"
	"fmt"
	"net"
	"strings"
	"sync"
	"testing"
	"time"

	"github.com/cenkalti/rain/v2/torrent"
	"github.com/cenkalti/rain/v2/verifharness/core"
	"github.com/cenkalti/rain/v2/verifharness/model"
	"github.com/cenkalti/rain/v2/verifharness/sess"
	"github.com/cenkalti/rain/v2/verifharness/speer"
	"github.com/cenkalti/rain/v2/verifharness/sstore"
	"pgregory.net/rapid"
)

// MetaPeer scripts one peer of a magnet download.
type MetaPeer struct {
	Mode      string `json:"mode"`       // see speer.Behaviour.MetaMode; "honest" = ""
	SizeKind  string `json:"size_kind"`  // true | plus1 | minus1 | huge | over-max | wrap32 | zero
	DelayMs   int    `json:"delay_ms"`   // per metadata answer
	ConnectMs int    `json:"connect_ms"` // when it connects
	Dials     bool   `json:"dials"`
}

type MetaCase struct {
	L         model.Layout `json:"layout"`
	Peers     []MetaPeer   `json:"peers"`
	MaxMeta   int          `json:"max_metadata_size"` // configured limit (0 = default)
	Parallel  int          `json:"parallel_metadata_downloads"`
	BigInfo   bool         `json:"big_info"`   // pad the info dictionary so that it spans several 16 KiB metadata pieces
	MaxPieces int          `json:"max_pieces"` // configured piece-count limit (0 = default)
}

func genMeta(t *rapid.T) MetaCase {
	c := MetaCase{L: model.GenLayout(t, model.LayoutOpts{MaxTotal: 48 << 10, MaxPieces: 12, MaxFiles: 3, NoPadding: true})}
	c.BigInfo = rapid.IntRange(0, 2).Draw(t, "bigInfo") != 0
	c.Parallel = rapid.IntRange(1, 3).Draw(t, "parallel")
	c.MaxMeta = rapid.SampledFrom([]int{0, 0, 60000, 100000}).Draw(t, "maxMeta")
	if rapid.IntRange(0, 4).Draw(t, "limitPieces") == 0 {
		c.MaxPieces = max(1, c.L.NumPieces()-rapid.IntRange(0, 1).Draw(t, "pieceSlack"))
	}
	n := rapid.IntRange(1, 4).Draw(t, "npeers")
	honest := false
	for i := 0; i < n; i++ {
		p := MetaPeer{Mode: rapid.SampledFrom([]string{"honest", "honest", "garbage", "garbage", "wrong-total", "short-piece", "long-piece", "dup", "forge-after", "forge-after", "unrequested", "swap-labels", "swap-labels", "reject", "silent", "close"}).Draw(t, "mode")}
		p.SizeKind = rapid.SampledFrom([]string{"true", "true", "true", "plus1", "minus1", "huge", "over-max", "wrap32", "zero"}).Draw(t, "size")
		p.DelayMs = rapid.SampledFrom([]int{0, 0, 5, 40}).Draw(t, "delay")
		p.ConnectMs = rapid.SampledFrom([]int{0, 0, 20, 100}).Draw(t, "connect")
		p.Dials = rapid.Bool().Draw(t, "dials")
		if p.Mode == "honest" && p.SizeKind == "true" {
			honest = true
		}
		c.Peers = append(c.Peers, p)
	}
	if !honest && rapid.IntRange(0, 3).Draw(t, "forceHonest") != 0 {
		c.Peers = append(c.Peers, MetaPeer{Mode: "honest", SizeKind: "true", DelayMs: rapid.SampledFrom([]int{0, 10, 60}).Draw(t, "hdelay"), ConnectMs: rapid.SampledFrom([]int{0, 50, 200}).Draw(t, "hconnect"), Dials: rapid.Bool().Draw(t, "hdials")})
	}
	return c
}

func runMeta(c MetaCase) core.Result {
	l := &c.L
	F := l.Flat()
	d := l.InfoDict(F)
	if c.BigInfo {
		d["zz-padding"] = strings.Repeat("p", 40000) // unknown keys are legal; the info dictionary now spans 3 metadata pieces
	}
	infoBytes := model.Benc(d)
	ih := sha1.Sum(infoBytes)
	dir, cleanup := sess.Scratch("c13")
	defer cleanup()
	cfg := sess.Config(dir)
	cfg.ParallelMetadataDownloads = c.Parallel
	if c.MaxMeta > 0 {
		cfg.MaxMetadataSize = uint(c.MaxMeta)
	}
	if c.MaxPieces > 0 {
		cfg.MaxPieces = uint32(c.MaxPieces)
	}
	overLimit := c.MaxPieces > 0 && l.NumPieces() > c.MaxPieces
	maxMeta := int64(cfg.MaxMetadataSize)
	cfg.CustomStorage = sstore.NewProvider()
	ses, err := torrent.NewSession(cfg)
	if err != nil {
		return core.Result{Inconcl: "session: " + err.Error()}
	}
	defer ses.Close()
	tor, err := ses.AddURI("magnet:?xt=urn:btih:"+hex.EncodeToString(ih[:])+"&dn=from-link", &torrent.AddTorrentOptions{StopAfterMetadata: true})
	if err != nil {
		return core.Failf("adding a valid magnet failed: %v", err)
	}
	clientAddr := fmt.Sprintf("%s:%d", sess.IP(0), tor.Port())
	size := func(kind string) int64 {
		n := int64(len(infoBytes))
		switch kind {
		case "plus1":
			return n + 1
		case "minus1":
			return n - 1
		case "huge":
			return 1<<31 - 1
		case "over-max":
			return maxMeta + 1
		case "wrap32":
			return 1<<32 + n // low 32 bits equal the real size
		case "zero":
			return 0
		}
		return n
	}
	var mu sync.Mutex
	servers := make([]*speer.Server, len(c.Peers))
	var wg sync.WaitGroup
	t0 := time.Now()
	var listeners []net.Listener
	defer func() {
		for _, ln := range listeners {
			ln.Close()
		}
	}()
	for i, mp := range c.Peers {
		i, mp := i, mp
		var id [20]byte
		copy(id[:], fmt.Sprintf("-SP0001-%012d", i))
		opts := speer.Opts{InfoHash: ih, PeerID: id, Fast: true, Ext: true, MetadataSize: size(mp.SizeKind), Reqq: 250}
		mode := mp.Mode
		if mode == "honest" {
			mode = ""
		}
		beh := speer.Behaviour{MetaMode: mode, MetaDelayMs: mp.DelayMs, Have: make([]bool, l.NumPieces())}
		if mp.Dials {
			wg.Add(1)
			go func() {
				defer wg.Done()
				time.Sleep(time.Until(t0.Add(time.Duration(mp.ConnectMs) * time.Millisecond)))
				for try := 0; try < 40; try++ {
					p, err := speer.Dial(sess.IP(1+i), clientAddr, opts, 2*time.Second)
					if err == nil {
						s := speer.Serve(p, beh, F, int(l.PieceLength), infoBytes)
						mu.Lock()
						servers[i] = s
						mu.Unlock()
						return
					}
					if !strings.Contains(err.Error(), "refused") {
						return
					}
					time.Sleep(25 * time.Millisecond)
				}
			}()
		} else {
			ln, err := net.Listen("tcp4", sess.IP(1+i)+":0")
			if err != nil {
				panic(err)
			}
			listeners = append(listeners, ln)
			go func() {
				for {
					conn, err := ln.Accept()
					if err != nil {
						return
					}
					go func() {
						p, err := speer.Accept(conn, opts, 3*time.Second)
						if err != nil {
							return
						}
						s := speer.Serve(p, beh, F, int(l.PieceLength), infoBytes)
						mu.Lock()
						if servers[i] == nil {
							servers[i] = s
						}
						mu.Unlock()
					}()
				}
			}()
			go func() {
				time.Sleep(time.Until(t0.Add(time.Duration(mp.ConnectMs) * time.Millisecond)))
				_ = tor.AddPeer(ln.Addr().String())
			}()
		}
	}
	hasHonest := false
	for _, mp := range c.Peers {
		if mp.Mode == "honest" && mp.SizeKind == "true" {
			hasHonest = true
		}
	}
	adopted := false
	var stopErr error
	stopped := false
	select {
	case <-tor.NotifyMetadata():
		adopted = true
	case stopErr = <-tor.NotifyStop():
		stopped = true
	case <-time.After(12 * time.Second):
	}
	res := core.Result{}
	lab := map[string]bool{}
	for _, mp := range c.Peers {
		lab["mode-"+mp.Mode] = true
		lab["size-"+mp.SizeKind] = true
	}
	// a peer that announced more than the configured maximum never receives a metadata request
	mu.Lock()
	for i, s := range servers {
		if s == nil {
			continue
		}
		sz := size(c.Peers[i].SizeKind)
		s.P.Log()
		_, _, _, _, _, _ = s.Snapshot()
		if sz > maxMeta && s.MetaRequests > 0 {
			mu.Unlock()
			return core.Failf("peer %d announced metadata_size %d (configured maximum %d) and received %d metadata requests", i, sz, maxMeta, s.MetaRequests)
		}
	}
	mu.Unlock()
	if adopted && overLimit {
		return core.Failf("metadata with %d pieces was adopted although the configured piece-count limit is %d", l.NumPieces(), c.MaxPieces)
	}
	if overLimit {
		lab["over-piece-limit"] = true
		for k := range lab {
			res.Labels = append(res.Labels, k)
		}
		res.Nontrivial = true
		return res
	}
	if adopted {
		b, err := tor.Torrent()
		if err != nil {
			return core.Failf("metadata adopted but Torrent() fails: %v", err)
		}
		v, _, derr := model.Bdecode(b)
		dd, _ := v.(map[string]any)
		if derr != nil || dd == nil {
			return core.Failf("Torrent() returns undecodable bytes")
		}
		// re-encode the info value canonically and hash it: must be the link's hash
		i0 := bytes.Index(b, []byte("4:info"))
		if i0 < 0 {
			return core.Failf("Torrent() has no info key")
		}
		_, n, _ := model.Bdecode(b[i0+6:])
		got := sha1.Sum(b[i0+6 : i0+6+n])
		if got != ih {
			return core.Failf("adopted metadata hashes to %x, the magnet link says %x", got, ih)
		}
		st := tor.Stats()
		if st.Name != l.Name {
			return core.Failf("adopted metadata: Stats().Name = %q, the info dictionary's name is %q", st.Name, l.Name)
		}
		lab["adopted"] = true
	} else if stopped && stopErr != nil && hasHonest {
		return core.Failf("the torrent stopped with %q while an honest peer offering the metadata was available: a lying peer must only cost itself", stopErr)
	} else if hasHonest {
		// stuck-state predicate
		st := tor.Stats()
		mu.Lock()
		defer mu.Unlock()
		for i, s := range servers {
			if s == nil || c.Peers[i].Mode != "honest" || c.Peers[i].SizeKind != "true" {
				continue
			}
			if !s.P.Closed() {
				return core.Failf("STUCK: 12 s after the magnet was added the metadata is still missing (status %v, peers %d, metadata downloads %+v) although honest peer %d offering it is connected (it received %d metadata requests)",
					st.Status, st.Peers.Total, st.MetadataDownloads, i, s.MetaRequests)
			}
		}
		res.Inconcl = "honest peer not connected at the deadline"
	}
	for k := range lab {
		res.Labels = append(res.Labels, k)
	}
	liars := 0
	for _, mp := range c.Peers {
		if mp.Mode != "honest" || mp.SizeKind != "true" {
			liars++
		}
	}
	res.Nontrivial = liars > 0
	return res
}

func TestMetadata(t *testing.T) { core.RunChild(t, "c13.metadata", genMeta, runMeta, 60*time.Second) }
