package c13

import (
	"encoding/base32"
	"encoding/hex"
	"fmt"
	"os"
	"sort"
	"strings"
	"testing"

	"github.com/cenkalti/rain/v2/internal/logger"
	"github.com/cenkalti/rain/v2/internal/magnet"
	"github.com/cenkalti/rain/v2/verifharness/core"
	"pgregory.net/rapid"
)

func TestMain(m *testing.M) {
	logger.Disable()
	os.Exit(m.Run())
}

type MagCase struct {
	Hash   []byte     `json:"hash"`
	Name   []byte     `json:"name"`
	Tiers  [][]string `json:"tiers"`
	Peers  []string   `json:"peers"`
	Base32 bool       `json:"base32"` // parse direction: write the hash in base32
	Upper  bool       `json:"upper"`
	Extra  []string   `json:"extra"` // unrelated parameters mixed in (parse direction)
}

var trackerPool = []string{"http://t1.example/announce", "udp://t2.example:6969/announce", "https://t3.example/a?x=1&y=2", "http://[2001:db8::1]:80/ann", "udp://t4.example:1",
	"http://t5.example/a b", "http://t6.example/%41", "http://t7.example/é", "wss://t8.example", "http://t9.example/;a=b", "http://t1.example/announce"}
var peerPool = []string{"1.2.3.4:6881", "10.0.0.1:1", "example.com:51413", "[2001:db8::1]:6881", "[::1]:80", "255.255.255.255:65535"}

func genMag(t *rapid.T) MagCase {
	c := MagCase{Hash: rapid.SliceOfN(rapid.Byte(), 20, 20).Draw(t, "hash")}
	switch rapid.IntRange(0, 3).Draw(t, "nameClass") {
	case 0:
	case 1:
		c.Name = []byte(rapid.SampledFrom([]string{"ubuntu.iso", "a b", "a+b", "a&b=c", "100%", "%41", "名前", "a;b", "a#b", "a?b", "=", "&", "+", " ", "\x00", "\xff\xfe", "x\ny"}).Draw(t, "name"))
	default:
		c.Name = rapid.SliceOfN(rapid.Byte(), 1, 12).Draw(t, "name")
	}
	nt := rapid.IntRange(0, 5).Draw(t, "ntiers")
	for i := 0; i < nt; i++ {
		k := rapid.IntRange(1, 3).Draw(t, "tierSize")
		var tier []string
		for j := 0; j < k; j++ {
			tier = append(tier, rapid.SampledFrom(trackerPool).Draw(t, "tr"))
		}
		c.Tiers = append(c.Tiers, tier)
	}
	for i := rapid.IntRange(0, 3).Draw(t, "npeers"); i > 0; i-- {
		c.Peers = append(c.Peers, rapid.SampledFrom(peerPool).Draw(t, "peer"))
	}
	c.Base32 = rapid.Bool().Draw(t, "b32")
	c.Upper = rapid.Bool().Draw(t, "upper")
	for i := rapid.IntRange(0, 2).Draw(t, "nextra"); i > 0; i-- {
		c.Extra = append(c.Extra, rapid.SampledFrom([]string{"xl=1024", "ws=http%3A%2F%2Fw.example%2Ff", "kt=a+b", "as=x", "tr.x=bad", "tr.-1=neg", "so=0"}).Draw(t, "extra"))
	}
	return c
}

func tierKey(t []string) string {
	s := append([]string(nil), t...)
	sort.Strings(s)
	// set semantics
	var u []string
	for i, x := range s {
		if i == 0 || x != s[i-1] {
			u = append(u, x)
		}
	}
	return strings.Join(u, "\x00")
}

func tiersMultiset(ts [][]string) []string {
	var out []string
	for _, t := range ts {
		if len(t) > 0 {
			out = append(out, tierKey(t))
		}
	}
	sort.Strings(out)
	return out
}

func eq(a, b []string) bool {
	if len(a) != len(b) {
		return false
	}
	for i := range a {
		if a[i] != b[i] {
			return false
		}
	}
	return true
}

func pct(b []byte) string {
	var sb strings.Builder
	for _, c := range b {
		if c >= 'a' && c <= 'z' || c >= 'A' && c <= 'Z' || c >= '0' && c <= '9' {
			sb.WriteByte(c)
		} else {
			fmt.Fprintf(&sb, "%%%02X", c)
		}
	}
	return sb.String()
}

func runMag(c MagCase) core.Result {
	res := core.Result{}
	var ih [20]byte
	copy(ih[:], c.Hash)
	// (1) export then parse back
	m := &magnet.Magnet{InfoHash: ih, Name: string(c.Name), Trackers: c.Tiers, Peers: c.Peers}
	link := m.String()
	back, err := magnet.New(link)
	if err != nil {
		return core.Failf("exported link does not parse back: %v\nlink: %q", err, link)
	}
	if back.InfoHash != ih {
		return core.Failf("exported link parses back to info-hash %x, want %x", back.InfoHash, ih)
	}
	if back.Name != string(c.Name) {
		return core.Failf("exported link parses back to name %q, want %q\nlink: %q", back.Name, c.Name, link)
	}
	if !eq(tiersMultiset(back.Trackers), tiersMultiset(c.Tiers)) {
		return core.Failf("exported link parses back to tiers %q, want (as a multiset of sets) %q\nlink: %q", back.Trackers, c.Tiers, link)
	}
	if !eq(back.Peers, c.Peers) {
		return core.Failf("exported link parses back to peers %q, want %q\nlink: %q", back.Peers, c.Peers, link)
	}
	// (2) a link written by some other client: parameters in generated order, hash hex or base32
	var params []string
	var hs string
	if c.Base32 {
		hs = base32.StdEncoding.EncodeToString(c.Hash)
		if !c.Upper {
			hs = strings.ToLower(hs) // lower-case base32 is not required to be accepted
		}
	} else {
		hs = hex.EncodeToString(c.Hash)
		if c.Upper {
			hs = strings.ToUpper(hs)
		}
	}
	params = append(params, "xt=urn:btih:"+hs)
	if len(c.Name) > 0 {
		params = append(params, "dn="+pct(c.Name))
	}
	for i, tier := range c.Tiers {
		for _, tr := range tier {
			params = append(params, fmt.Sprintf("tr.%d=%s", i+1, pct([]byte(tr))))
		}
	}
	for _, p := range c.Peers {
		params = append(params, "x.pe="+pct([]byte(p)))
	}
	params = append(params, c.Extra...)
	link2 := "magnet:?" + strings.Join(params, "&")
	got, err := magnet.New(link2)
	lowerB32 := c.Base32 && !c.Upper
	if err != nil {
		if lowerB32 {
			res.Labels = append(res.Labels, "lowercase-base32-rejected")
		} else {
			return core.Failf("well-formed link rejected: %v\nlink: %q", err, link2)
		}
	} else {
		if got.InfoHash != ih {
			return core.Failf("link parses to info-hash %x, want %x\nlink: %q", got.InfoHash, ih, link2)
		}
		if got.Name != string(c.Name) || !eq(got.Peers, c.Peers) {
			return core.Failf("link parses to name %q peers %q, want %q %q\nlink: %q", got.Name, got.Peers, c.Name, c.Peers, link2)
		}
		// tiers given with explicit indexes keep their order
		var want [][]string
		for _, t := range c.Tiers {
			want = append(want, t)
		}
		if len(got.Trackers) != len(want) {
			return core.Failf("link parses to %d tiers, want %d\nlink: %q", len(got.Trackers), len(want), link2)
		}
		for i := range want {
			if tierKey(got.Trackers[i]) != tierKey(want[i]) {
				return core.Failf("tier %d parses to %q, want %q\nlink: %q", i, got.Trackers[i], want[i], link2)
			}
		}
	}
	multi := false
	for _, t := range c.Tiers {
		if len(t) > 1 {
			multi = true
		}
	}
	res.Nontrivial = len(c.Tiers) >= 2 && multi || len(c.Name) > 0 && len(c.Peers) > 0
	if multi {
		res.Labels = append(res.Labels, "multi-tracker-tier")
	}
	return res
}

func TestMagnet(t *testing.T) { core.Run(t, "c13.magnet", genMag, runMag) }
