package c04

import (
	"bytes"
	"fmt"
	"net"
	"os"
	"sync"
	"testing"
	"time"

	"github.com/cenkalti/rain/v2/internal/logger"
	"github.com/cenkalti/rain/v2/torrent"
	"github.com/cenkalti/rain/v2/verifharness/core"
	"github.com/cenkalti/rain/v2/verifharness/model"
	"github.com/cenkalti/rain/v2/verifharness/sess"
	"github.com/cenkalti/rain/v2/verifharness/speer"
	"github.com/cenkalti/rain/v2/verifharness/sstore"
	"github.com/cenkalti/rain/v2/verifharness/strk"
	"pgregory.net/rapid"
)

func TestMain(m *testing.M) {
	if os.Getenv("VERIF_DEBUG") == "" {
		logger.Disable()
	}
	os.Exit(m.Run())
}

type Op struct {
	Op  string `json:"op"`
	Ms  int    `json:"ms,omitempty"`
	Sel int    `json:"sel,omitempty"`
}

type LifeCase struct {
	L            model.Layout `json:"layout"`
	Ops          []Op         `json:"ops"`
	StopDelayMs  int          `json:"tracker_stop_delay_ms"` // how long the tracker sits on a 'stopped' announce
	OpenDelayMs  int          `json:"open_delay_ms"`         // storage: delay of each Open (stretches allocation)
	ReadDelayMs  int          `json:"read_delay_ms"`         // storage: delay of each ReadAt (stretches verification)
	WriteDelayMs int          `json:"write_delay_ms"`        // storage: delay of each WriteAt
	AddStopped   bool         `json:"add_stopped"`
	MaxPeerDial  int          `json:"max_peer_dial"` // 0 = default; small values leave known addresses queued
}

var opKinds = []string{"start", "start", "stop", "stop", "stopwait", "verify", "verifywait", "announce", "addpeer", "addpeer", "addtracker", "stats", "peers", "sleep", "sleep",
	"corrupt", "truncate", "delete-some", "delete-all", "waitseed"}

func genLife(t *rapid.T) LifeCase {
	c := LifeCase{L: model.GenLayout(t, model.LayoutOpts{MaxTotal: 200 << 10, MaxPieces: 32, MaxFiles: 4})}
	if rapid.IntRange(0, 2).Draw(t, "completeFirst") > 0 {
		// reach a complete (or partially downloaded) torrent first, stop it, and touch its files: the histories in which
		// the client has to notice that what it believes is no longer on the disk
		c.Ops = append(c.Ops, Op{Op: "start"}, Op{Op: "addpeer"})
		if rapid.IntRange(0, 3).Draw(t, "partial") == 0 {
			c.Ops = append(c.Ops, Op{Op: "sleep", Ms: rapid.SampledFrom([]int{5, 50, 150}).Draw(t, "partialMs")})
		} else {
			c.Ops = append(c.Ops, Op{Op: "waitseed"})
		}
		c.Ops = append(c.Ops, Op{Op: "stopwait"})
		c.Ops = append(c.Ops, Op{Op: rapid.SampledFrom([]string{"corrupt", "truncate", "delete-some", "delete-all", "delete-all", "delete-some", "sleep"}).Draw(t, "mut"), Sel: rapid.IntRange(0, 1000).Draw(t, "mutSel")})
		c.Ops = append(c.Ops, Op{Op: rapid.SampledFrom([]string{"start", "start", "verifywait", "verify"}).Draw(t, "after")})
		if rapid.Bool().Draw(t, "again") {
			c.Ops = append(c.Ops, Op{Op: "addpeer"}, Op{Op: "waitseed"})
		}
	}
	n := rapid.IntRange(3, 18).Draw(t, "nops")
	for i := 0; i < n; i++ {
		op := Op{Op: rapid.SampledFrom(opKinds).Draw(t, "op")}
		op.Ms = rapid.SampledFrom([]int{0, 1, 5, 50, 150}).Draw(t, "ms")
		op.Sel = rapid.IntRange(0, 1000).Draw(t, "sel")
		c.Ops = append(c.Ops, op)
	}
	c.StopDelayMs = rapid.SampledFrom([]int{0, 0, 100, 1000}).Draw(t, "stopDelay")
	c.OpenDelayMs = rapid.SampledFrom([]int{0, 0, 10, 40}).Draw(t, "openDelay")
	c.ReadDelayMs = rapid.SampledFrom([]int{0, 0, 2, 10}).Draw(t, "readDelay")
	c.WriteDelayMs = rapid.SampledFrom([]int{0, 0, 5, 30}).Draw(t, "writeDelay")
	c.AddStopped = rapid.Bool().Draw(t, "addStopped")
	c.MaxPeerDial = rapid.SampledFrom([]int{0, 0, 1, 2}).Draw(t, "maxPeerDial")
	return c
}

const stopTimeout = 300 * time.Millisecond

func runLife(c LifeCase) core.Result {
	l := &c.L
	F := l.Flat()
	ih := l.InfoHash(F)
	infoBytes := l.InfoBytes(F)
	pl := int(l.PieceLength)
	mask := l.PadMask()
	offs := l.FileOffsets()
	dir, cleanup := sess.Scratch("c04")
	defer cleanup()
	cfg := sess.Config(dir)
	cfg.TrackerStopTimeout = stopTimeout
	if c.MaxPeerDial > 0 {
		cfg.MaxPeerDial = c.MaxPeerDial
	}
	prov := sstore.NewProvider()
	var mem *sstore.Mem
	var memMu sync.Mutex
	prov.Setup = func(id string, m *sstore.Mem) {
		memMu.Lock()
		mem = m
		memMu.Unlock()
		if c.OpenDelayMs > 0 {
			m.OpenErr = func(string) error { time.Sleep(time.Duration(c.OpenDelayMs) * time.Millisecond); return nil }
		}
		if c.ReadDelayMs > 0 {
			m.ReadHook = func() { time.Sleep(time.Duration(c.ReadDelayMs) * time.Millisecond) }
		}
		if c.WriteDelayMs > 0 {
			m.WriteHook = func(string, int64, []byte) { time.Sleep(time.Duration(c.WriteDelayMs) * time.Millisecond) }
		}
	}
	cfg.CustomStorage = prov
	trk, err := strk.NewHTTP(sess.IP(50)+":0", func(n int, r strk.HTTPReq) []byte {
		if string(r.Params["event"]) == "stopped" && c.StopDelayMs > 0 {
			time.Sleep(time.Duration(c.StopDelayMs) * time.Millisecond)
		}
		return strk.OKResponse(model.Benc(map[string]any{"interval": int64(1800), "peers": ""}))
	})
	if err != nil {
		panic(err)
	}
	defer trk.Close()
	ses, err := torrent.NewSession(cfg)
	if err != nil {
		return core.Result{Inconcl: "session: " + err.Error()}
	}
	sesClosed := false
	defer func() {
		if !sesClosed {
			ses.Close()
		}
	}()
	var tor *torrent.Torrent
	// honest seeders on three addresses (more known addresses than dial slots when MaxPeerDial is small)
	var seedAddrs []string
	for k := 1; k <= 3; k++ {
		ln, err := net.Listen("tcp4", sess.IP(k)+":0")
		if err != nil {
			panic(err)
		}
		defer ln.Close()
		seedAddrs = append(seedAddrs, ln.Addr().String())
		go func(k int, ln net.Listener) {
			for {
				conn, err := ln.Accept()
				if err != nil {
					return
				}
				go func() {
					var id [20]byte
					copy(id[:], fmt.Sprintf("-SP0001-%012d", k))
					p, err := speer.Accept(conn, speer.Opts{InfoHash: ih, PeerID: id, Fast: true, Ext: true, MetadataSize: int64(len(infoBytes)), Reqq: 250}, 3*time.Second)
					if err != nil {
						return
					}
					speer.Serve(p, speer.Behaviour{DelayPerBlockMs: 3}, F, pl, infoBytes)
				}()
			}
		}(k, ln)
	}
	addPeers := func() {
		for _, a := range seedAddrs {
			_ = tor.AddPeer(a)
		}
	}
	tor, err = ses.AddTorrent(bytes.NewReader(l.Metainfo(F, [][]string{{trk.URL()}}, nil)), &torrent.AddTorrentOptions{Stopped: c.AddStopped})
	if err != nil {
		return core.Failf("adding a valid torrent failed: %v", err)
	}
	// every API call must return
	var hang string
	call := func(name string, f func()) bool {
		done := make(chan struct{})
		go func() { defer close(done); f() }()
		select {
		case <-done:
			return true
		case <-time.After(10 * time.Second):
			hang = fmt.Sprintf("%s did not return within 10 s", name)
			return false
		}
	}
	var st torrent.Stats
	stats := func() bool { return call("Stats()", func() { st = tor.Stats() }) }
	verifyWrites := 0
	writeCount := func() int {
		memMu.Lock()
		m := mem
		memMu.Unlock()
		if m == nil {
			return 0
		}
		return len(m.Writes())
	}
	image := func() (correct int, complete bool) {
		memMu.Lock()
		m := mem
		memMu.Unlock()
		if m == nil {
			return 0, false
		}
		snap := m.Snapshot()
		np := l.NumPieces()
		for p := 0; p < np; p++ {
			ok := true
			for b := p * pl; b < min((p+1)*pl, len(F)) && ok; b++ {
				if mask[b] {
					continue
				}
				// which file
				fi := 0
				for fi+1 < len(offs) && offs[fi+1] <= int64(b) {
					fi++
				}
				for !(offs[fi] <= int64(b) && int64(b) < offs[fi]+l.Files[fi].Length) {
					fi--
				}
				data, have := snap[l.ExpectedPath(fi)]
				o := int64(b) - offs[fi]
				if !have || o >= int64(len(data)) || data[o] != F[b] {
					ok = false
				}
			}
			if ok {
				correct++
			}
		}
		return correct, correct == np
	}
	dirty := false // files were corrupted/truncated behind the client's back and no verification has completed since
	lab := map[string]bool{}
	lifecycleCmds := 0
	var lastCmd string
	verifyPending := false
	mutSeq, verifyMutSeq := 0, 0 // external file mutations so far / at the time of the last verify command
	truthful := func(after string) string {
		if !stats() {
			return hang
		}
		if st.Bytes.Completed < 0 || st.Bytes.Completed > st.Bytes.Total || (st.Pieces.Have == st.Pieces.Total && st.Pieces.Total > 0 && st.Bytes.Completed != st.Bytes.Total) || (st.Pieces.Have == 0 && st.Bytes.Completed != 0) {
			return fmt.Sprintf("after %s: completed bytes %d inconsistent with %d/%d pieces (total %d bytes)", after, st.Bytes.Completed, st.Pieces.Have, st.Pieces.Total, st.Bytes.Total)
		}
		switch st.Status {
		case torrent.Seeding:
			if st.Pieces.Have != st.Pieces.Total {
				return fmt.Sprintf("after %s: status Seeding with %d of %d pieces", after, st.Pieces.Have, st.Pieces.Total)
			}
			if !dirty {
				if n, ok := image(); !ok {
					return fmt.Sprintf("after %s: status Seeding but only %d of %d pieces are correct on storage", after, n, l.NumPieces())
				}
			}
			lab["seeding-seen"] = true
		case torrent.Stopped:
			verifyPending = false
			memMu.Lock()
			m := mem
			memMu.Unlock()
			open := 0
			if m != nil {
				open = m.OpenHandles()
			}
			if st.Peers.Total != 0 || st.Downloads.Total != 0 || open != 0 {
				return fmt.Sprintf("after %s: status Stopped with %d peers, %d downloads, %d open data files", after, st.Peers.Total, st.Downloads.Total, open)
			}
		}
		return ""
	}
	isStopped := func() bool { return stats() && st.Status == torrent.Stopped }
	// the bounds below are bounds on what the client does while it runs: time in which the whole process was
	// descheduled (core.WatchStalls; only on a badly overloaded machine) is added to them
	stall := core.WatchStalls()
	defer stall.Stop()
	waitStopped := func(d time.Duration) bool {
		deadline := time.Now().Add(d)
		lost0 := stall.Lost()
		for {
			for time.Now().Before(deadline.Add(stall.Lost() - lost0)) {
				if isStopped() {
					return true
				}
				if hang != "" {
					return false
				}
				time.Sleep(5 * time.Millisecond)
			}
			// a stall that has just ended is booked by the monitor's next tick: look again after it
			time.Sleep(120 * time.Millisecond)
			if !time.Now().Before(deadline.Add(stall.Lost() - lost0)) {
				break
			}
		}
		return isStopped()
	}
	for oi, op := range c.Ops {
		name := fmt.Sprintf("op %d (%s)", oi, op.Op)
		switch op.Op {
		case "start":
			lifecycleCmds++
			lastCmd = "start"
			if verifyPending {
				// a start issued while a verification may still be running: the statement says both that a verification
				// ends stopped and that the later command takes effect; not asserted either way
				lastCmd = "start-during-verify"
			}
			if !call("Start()", func() { _ = tor.Start() }) {
				return core.Failf("%s: %s", name, hang)
			}
		case "stop":
			lifecycleCmds++
			lastCmd = "stop"
			if !call("Stop()", func() { _ = tor.Stop() }) {
				return core.Failf("%s: %s", name, hang)
			}
		case "stopwait":
			lifecycleCmds++
			lastCmd = "stop"
			if !call("Stop()", func() { _ = tor.Stop() }) {
				return core.Failf("%s: %s", name, hang)
			}
			if !waitStopped(stopTimeout + 2*time.Second) {
				if hang != "" {
					return core.Failf("%s: %s", name, hang)
				}
				return core.Failf("%s: %v after Stop() the torrent is %v, not Stopped (tracker stop timeout is %v, the tracker holds 'stopped' for %d ms)", name, stopTimeout+2*time.Second, st.Status, stopTimeout, c.StopDelayMs)
			}
			lab["stop-confirmed"] = true
		case "verify", "verifywait":
			lifecycleCmds++
			lastCmd = "verify"
			before := ""
			if stats() {
				before = st.Status.String()
			}
			verifyWrites = writeCount()
			if !call("Verify()", func() { _ = tor.Verify() }) {
				return core.Failf("%s: %s", name, hang)
			}
			lab["verify-from-"+before] = true
			verifyPending = true
			verifyMutSeq = mutSeq
			if op.Op == "verifywait" {
				if !waitStopped(15 * time.Second) {
					if hang != "" {
						return core.Failf("%s: %s", name, hang)
					}
					return core.Failf("%s: 15 s after Verify() (issued while %s) the torrent is %v with %d/%d pieces, not Stopped: a verification request must end with the torrent stopped", name, before, st.Status, st.Pieces.Have, st.Pieces.Total)
				}
				// a piece write that was in flight when the torrent stopped is not cancelled and may land while the
				// verification runs or after it: then the verdict may lag behind storage, never run ahead of it
				late := writeCount() != verifyWrites
				n, _ := image()
				if int(st.Pieces.Have) > n || (!late && int(st.Pieces.Have) != n) {
					return core.Failf("%s: verification finished with %d pieces marked, storage holds %d correct pieces (writes that landed since the request: %d)", name, st.Pieces.Have, n, writeCount()-verifyWrites)
				}
				if late {
					lab["write-landed-during-verification"] = true
				}
				dirty = false
				verifyPending = false
				lab["verify-confirmed"] = true
			}
		case "announce":
			if !call("Announce()", func() { tor.Announce() }) {
				return core.Failf("%s: %s", name, hang)
			}
		case "addpeer":
			if !call("AddPeer()", addPeers) {
				return core.Failf("%s: %s", name, hang)
			}
		case "addtracker":
			if !call("AddTracker()", func() { _ = tor.AddTracker(fmt.Sprintf("http://%s/announce%d", trk.Addr(), op.Sel%3)) }) {
				return core.Failf("%s: %s", name, hang)
			}
		case "stats":
		case "peers":
			if !call("Peers()", func() { _ = tor.Peers(); _ = tor.Trackers(); _ = tor.Webseeds() }) {
				return core.Failf("%s: %s", name, hang)
			}
		case "sleep":
			time.Sleep(time.Duration(op.Ms) * time.Millisecond)
		case "waitseed":
			for i := 0; i < 300; i++ {
				if !stats() || st.Status == torrent.Seeding || st.Status == torrent.Stopped {
					break
				}
				time.Sleep(10 * time.Millisecond)
			}
		case "corrupt", "truncate", "delete-some", "delete-all":
			if !isStopped() {
				continue // files are only touched while the torrent reports Stopped
			}
			memMu.Lock()
			m := mem
			memMu.Unlock()
			if m == nil {
				continue
			}
			mutSeq++
			m.Mutate(func(files map[string]*sstore.MemFile) {
				var names []string
				for i, f := range l.Files {
					if f.Pad == 0 && f.Length > 0 {
						if _, ok := files[l.ExpectedPath(i)]; ok {
							names = append(names, l.ExpectedPath(i))
						}
					}
				}
				if len(names) == 0 {
					return
				}
				pick := names[op.Sel%len(names)]
				switch op.Op {
				case "corrupt":
					d := files[pick].Data
					if len(d) > 0 {
						d[op.Sel%len(d)] ^= 0x40
						dirty = true
						lab["corrupt"] = true
					}
				case "truncate":
					d := files[pick].Data
					if len(d) > 0 {
						files[pick].Data = d[:op.Sel%len(d)]
						dirty = true
						lab["truncate"] = true
					}
				case "delete-some":
					delete(files, pick)
					lab["delete-some"] = true
				case "delete-all":
					for _, n := range names {
						delete(files, n)
					}
					lab["delete-all"] = true
				}
			})
		}
		if hang != "" {
			return core.Failf("%s: %s", name, hang)
		}
		if s := truthful(name); s != "" {
			return core.Failf("%s", s)
		}
	}
	// ---- commands take effect: the last of start/stop/verify decides ----
	switch lastCmd {
	case "stop":
		if !waitStopped(stopTimeout + 2*time.Second) {
			return core.Failf("the last command was stop; %v later the torrent is %v (hang: %q)", stopTimeout+2*time.Second, st.Status, hang)
		}
	case "verify":
		if !waitStopped(15 * time.Second) {
			return core.Failf("the last command was verify; 15 s later the torrent is %v with %d/%d pieces, not Stopped (hang: %q)", st.Status, st.Pieces.Have, st.Pieces.Total, hang)
		}
		if mutSeq == verifyMutSeq { // the files were not touched after the verification was requested
			late := writeCount() != verifyWrites
			n, _ := image()
			if int(st.Pieces.Have) > n || (!late && int(st.Pieces.Have) != n) {
				return core.Failf("verification finished with %d pieces marked, storage holds %d correct pieces (writes that landed since the request: %d)", st.Pieces.Have, n, writeCount()-verifyWrites)
			}
			if late {
				lab["write-landed-during-verification"] = true
			}
			dirty = false
		}
	case "start":
		// a start issued while an earlier stop is still completing must not be lost: watch for longer than a stop can take
		for dl := time.Now().Add(stopTimeout + 500*time.Millisecond); time.Now().Before(dl); time.Sleep(10 * time.Millisecond) {
			if !stats() {
				return core.Failf("%s", hang)
			}
			if st.Status == torrent.Stopped && st.Error == nil {
				return core.Failf("the last command was start, yet the torrent ended up Stopped without an error: the command was silently dropped")
			}
			if st.Status == torrent.Seeding || st.Status == torrent.Downloading {
				break
			}
		}
	}
	if s := truthful("the history"); s != "" {
		return core.Failf("%s", s)
	}
	// ---- convergence: start again with the seed reachable ----
	if dirty {
		if !call("Verify()", func() { _ = tor.Verify() }) || !waitStopped(15*time.Second) {
			return core.Failf("final verification did not end Stopped (status %v, hang %q)", st.Status, hang)
		}
		dirty = false
	}
	if !call("Start()", func() { _ = tor.Start() }) {
		return core.Failf("final start: %s", hang)
	}
	deadline := time.Now().Add(25 * time.Second)
	converged := false
	lastAdd := time.Time{}
	for time.Now().Before(deadline) {
		if !stats() {
			return core.Failf("final phase: %s", hang)
		}
		if st.Status == torrent.Seeding && st.Pieces.Have == st.Pieces.Total {
			converged = true
			break
		}
		if st.Status == torrent.Stopped {
			if st.Error != nil {
				return core.Failf("final start with a reachable seed ended Stopped with error %v", st.Error)
			}
			_ = tor.Start() // a pending stop may still have been completing
		}
		if time.Since(lastAdd) > 500*time.Millisecond {
			addPeers()
			lastAdd = time.Now()
		}
		time.Sleep(10 * time.Millisecond)
	}
	if !converged {
		n, _ := image()
		return core.Failf("starting again with a reachable honest seed did not converge within 25 s: status %v, %d/%d pieces (storage holds %d correct), peers %d, downloads %+v, error %v",
			st.Status, st.Pieces.Have, st.Pieces.Total, n, st.Peers.Total, st.Downloads, st.Error)
	}
	if n, ok := image(); !ok {
		memMu.Lock()
		m := mem
		memMu.Unlock()
		detail := ""
		if m != nil {
			snap := m.Snapshot()
			for i, f := range l.Files {
				if f.Pad != 0 {
					continue
				}
				d := snap[l.ExpectedPath(i)]
				k := 0
				for k < len(d) && int64(k) < f.Length && d[k] == F[offs[i]+int64(k)] {
					k++
				}
				detail += fmt.Sprintf(" [%s: %d bytes on storage, %d expected, first difference at %d]", l.ExpectedPath(i), len(d), f.Length, k)
			}
		}
		return core.Failf("converged to Seeding but only %d of %d pieces are correct on storage:%s", n, l.NumPieces(), detail)
	}
	sesClosed = true
	if !call("Session.Close()", func() { ses.Close() }) {
		return core.Failf("%s", hang)
	}
	res := core.Result{}
	for k := range lab {
		res.Labels = append(res.Labels, k)
	}
	res.Nontrivial = lifecycleCmds >= 3
	return res
}

func TestLifecycle(t *testing.T) {
	core.RunChild(t, "c04.lifecycle", genLife, runLife, 120*time.Second)
}
