package c11

import (
	"bytes"
	"fmt"
	"io"
	"os"
	"reflect"
	"sync"
	"sync/atomic"
	"testing"
	"time"

	"github.com/cenkalti/rain/v2/internal/logger"
	"github.com/cenkalti/rain/v2/internal/peerconn/peerreader"
	"github.com/cenkalti/rain/v2/internal/peerconn/peerwriter"
	"github.com/cenkalti/rain/v2/internal/peerprotocol"
	"github.com/cenkalti/rain/v2/verifharness/chunkconn"
	"github.com/cenkalti/rain/v2/verifharness/core"
	"github.com/cenkalti/rain/v2/verifharness/model"
	"github.com/cenkalti/rain/v2/verifharness/refwire"
	"pgregory.net/rapid"
)

func TestMain(m *testing.M) {
	logger.Disable()
	os.Exit(m.Run())
}

// WireCase: a sequence of messages the client emits, the fragmentation of the stream towards the reader,
// and an optional injected write failure.
type WireCase struct {
	Msgs   []refwire.Msg `json:"msgs"`
	Reads  []int         `json:"reads"`   // read-size schedule of the side that captures the writer's bytes
	Reads2 []int         `json:"reads2"`  // read-size schedule under which rain's reader sees the stream
	FailAt int           `json:"fail_at"` // >0: the connection fails once this many bytes were written
	RTrip  bool          `json:"rtrip"`   // use rain's own extension ids so that its reader can decode the stream
}

func genWire(t *rapid.T) WireCase {
	c := WireCase{RTrip: rapid.IntRange(0, 3).Draw(t, "rtrip") != 0}
	n := rapid.IntRange(1, 12).Draw(t, "n")
	for i := 0; i < n; i++ {
		c.Msgs = append(c.Msgs, refwire.GenMsg(t, refwire.GenOpts{ClientEmits: true, FixedExtIDs: c.RTrip, MaxPayload: 8192}))
	}
	// repeat earlier messages (a duplicate request on one connection is answered with reject, not data)
	for k := rapid.IntRange(0, 2).Draw(t, "ndup"); k > 0 && len(c.Msgs) > 0; k-- {
		c.Msgs = append(c.Msgs, c.Msgs[rapid.IntRange(0, len(c.Msgs)-1).Draw(t, "dupOf")])
	}
	c.Reads = refwire.GenSchedule(t, "reads")
	c.Reads2 = refwire.GenSchedule(t, "reads2")
	if rapid.IntRange(0, 4).Draw(t, "fail") == 0 {
		c.FailAt = rapid.IntRange(1, 40000).Draw(t, "failAt")
	}
	return c
}

type blockReader struct {
	begin uint32
	data  []byte
}

func (b blockReader) ReadAt(p []byte, off int64) (int, error) {
	if off != int64(b.begin) {
		return 0, fmt.Errorf("ReadAt at %d, want %d", off, b.begin)
	}
	n := copy(p, b.data)
	if n < len(p) {
		return n, io.ErrUnexpectedEOF
	}
	return n, nil
}

func send(w *peerwriter.PeerWriter, m refwire.Msg) {
	rq := peerprotocol.RequestMessage{Index: m.Index, Begin: m.Begin, Length: m.Length}
	switch m.Kind {
	case "choke":
		w.SendMessage(peerprotocol.ChokeMessage{})
	case "unchoke":
		w.SendMessage(peerprotocol.UnchokeMessage{})
	case "interested":
		w.SendMessage(peerprotocol.InterestedMessage{})
	case "notinterested":
		w.SendMessage(peerprotocol.NotInterestedMessage{})
	case "have":
		w.SendMessage(peerprotocol.HaveMessage{Index: m.Index})
	case "bitfield":
		w.SendMessage(&peerprotocol.BitfieldMessage{Data: m.Data})
	case "request":
		w.SendMessage(rq)
	case "cancel":
		w.SendMessage(peerprotocol.CancelMessage{RequestMessage: rq})
	case "reject":
		w.SendMessage(peerprotocol.RejectMessage{RequestMessage: rq})
	case "piece":
		w.SendPiece(peerprotocol.RequestMessage{Index: m.Index, Begin: m.Begin, Length: uint32(len(m.Data))}, blockReader{m.Begin, m.Data})
	case "port":
		w.SendMessage(peerprotocol.PortMessage{Port: m.Port})
	case "haveall":
		w.SendMessage(peerprotocol.HaveAllMessage{})
	case "havenone":
		w.SendMessage(peerprotocol.HaveNoneMessage{})
	case "allowedfast":
		w.SendMessage(peerprotocol.AllowedFastMessage{HaveMessage: peerprotocol.HaveMessage{Index: m.Index}})
	case "ext-handshake":
		mm := map[string]uint8{}
		for k, v := range m.M {
			mm[k] = uint8(v)
		}
		w.SendMessage(peerprotocol.ExtensionMessage{ExtendedMessageID: 0, Payload: peerprotocol.ExtensionHandshakeMessage{
			M: mm, V: m.V, YourIP: string(m.YourIP), MetadataSize: int(m.MetadataSize), RequestQueue: int(m.Reqq)}})
	case "ext-metadata":
		w.SendMessage(peerprotocol.ExtensionMessage{ExtendedMessageID: m.ExtID, Payload: peerprotocol.ExtensionMetadataMessage{
			Type: int(m.MsgType), Piece: m.Index, TotalSize: int(m.TotalSize), Data: m.Data}})
	case "ext-pex":
		w.SendMessage(peerprotocol.ExtensionMessage{ExtendedMessageID: m.ExtID, Payload: peerprotocol.ExtensionPEXMessage{
			Added: string(m.Added), Dropped: string(m.Dropped)}})
	default:
		panic("send: " + m.Kind)
	}
}

// checkFrame compares one frame body emitted by rain with the reference encoding of m.
func checkFrame(body []byte, m refwire.Msg) string {
	want := refwire.Encode(m)[4:]
	switch m.Kind {
	case "ext-handshake", "ext-metadata", "ext-pex":
		if len(body) < 2 || body[0] != refwire.IDExtended {
			return fmt.Sprintf("extension message framed as % x...", clip(body, 8))
		}
		wantExt := m.ExtID
		if m.Kind == "ext-handshake" {
			wantExt = 0
		}
		if body[1] != wantExt {
			return fmt.Sprintf("extended message id %d, want %d", body[1], wantExt)
		}
		pl := body[2:]
		v, n, err := model.Bdecode(pl)
		d, ok := v.(map[string]any)
		if err != nil || !ok {
			return fmt.Sprintf("extension payload is not a bencoded dictionary: %q", clip(pl, 60))
		}
		if !bytes.Equal(model.Benc(d), pl[:n]) {
			return fmt.Sprintf("extension dictionary is not canonical bencode: %q", clip(pl[:n], 120))
		}
		geti := func(k string) int64 { x, _ := d[k].(int64); return x }
		gets := func(k string) string { x, _ := d[k].(string); return x }
		switch m.Kind {
		case "ext-handshake":
			mm, _ := d["m"].(map[string]any)
			if len(mm) != len(m.M) {
				return fmt.Sprintf("handshake m has %d keys, want %d", len(mm), len(m.M))
			}
			for k, v := range m.M {
				if iv, ok := mm[k].(int64); !ok || int(iv) != v {
					return fmt.Sprintf("handshake m[%q] = %v, want %d", k, mm[k], v)
				}
			}
			if gets("v") != m.V || gets("yourip") != string(m.YourIP) || geti("metadata_size") != m.MetadataSize || geti("reqq") != m.Reqq {
				return fmt.Sprintf("handshake fields %v, want v=%q yourip=%x metadata_size=%d reqq=%d", d, m.V, m.YourIP, m.MetadataSize, m.Reqq)
			}
			if n != len(pl) {
				return "trailing bytes after handshake dictionary"
			}
		case "ext-metadata":
			if geti("msg_type") != m.MsgType || geti("piece") != int64(m.Index) || geti("total_size") != m.TotalSize {
				return fmt.Sprintf("metadata fields %v, want msg_type=%d piece=%d total_size=%d", d, m.MsgType, m.Index, m.TotalSize)
			}
			if !bytes.Equal(pl[n:], m.Data) {
				return fmt.Sprintf("metadata trailing data of %d bytes, want %d (or content differs)", len(pl)-n, len(m.Data))
			}
		case "ext-pex":
			if gets("added") != string(m.Added) || gets("dropped") != string(m.Dropped) {
				return "pex added/dropped differ"
			}
			if n != len(pl) {
				return "trailing bytes after pex dictionary"
			}
		}
		return ""
	}
	if !bytes.Equal(body, want) {
		return fmt.Sprintf("frame % x..., reference % x... (lengths %d / %d)", clip(body, 24), clip(want, 24), len(body), len(want))
	}
	return ""
}

func clip(b []byte, n int) []byte {
	if len(b) > n {
		return b[:n]
	}
	return b
}

// expected returns the message the remote must observe for sent message i, given the writer's documented
// duplicate-request rule (a piece for a request already served on this connection is answered with reject).
func expectedStream(msgs []refwire.Msg) []refwire.Msg {
	served := map[[3]uint32]bool{}
	var out []refwire.Msg
	for _, m := range msgs {
		if m.Kind == "piece" {
			k := [3]uint32{m.Index, m.Begin, uint32(len(m.Data))}
			if served[k] {
				out = append(out, refwire.Msg{Kind: "reject", Index: m.Index, Begin: m.Begin, Length: uint32(len(m.Data))})
				continue
			}
			served[k] = true
		}
		out = append(out, m)
	}
	return out
}

func runWire(c WireCase) core.Result {
	res := core.Result{}
	exp := expectedStream(c.Msgs)
	var wantLen int
	for _, m := range exp {
		wantLen += len(refwire.Encode(m)) // extension messages may differ in length; recomputed below from frames
	}
	a, b := chunkconn.Pair(nil, c.Reads)
	if c.FailAt > 0 {
		a.FailWritesAfter(c.FailAt)
	}
	w := peerwriter.New(a, logger.New("w"), 1<<30, true, nil)
	var uploaded uint64
	var wg sync.WaitGroup
	stopCount := make(chan struct{})
	wg.Add(1)
	go func() {
		defer wg.Done()
		for {
			select {
			case ev := <-w.Messages():
				if bu, ok := ev.(peerwriter.BlockUploaded); ok {
					atomic.AddUint64(&uploaded, uint64(bu.Length))
				}
			case <-stopCount:
				// drain what is immediately available
				for {
					select {
					case ev := <-w.Messages():
						if bu, ok := ev.(peerwriter.BlockUploaded); ok {
							atomic.AddUint64(&uploaded, uint64(bu.Length))
						}
					default:
						return
					}
				}
			}
		}
	}()
	go w.Run()
	// capture side
	var captured []byte
	var capMu sync.Mutex
	capDone := make(chan struct{})
	go func() {
		defer close(capDone)
		buf := make([]byte, 70000)
		for {
			n, err := b.Read(buf)
			capMu.Lock()
			captured = append(captured, buf[:n]...)
			capMu.Unlock()
			if err != nil {
				return
			}
		}
	}()
	// waitFrames blocks until the remote has n complete frames (or the injected fault has cut the stream).
	waitFrames := func(n int) bool {
		deadline := time.Now().Add(20 * time.Second)
		for time.Now().Before(deadline) {
			capMu.Lock()
			fr, _ := refwire.SplitFrames(captured)
			capMu.Unlock()
			if len(fr) >= n {
				return true
			}
			if c.FailAt > 0 && a.BytesWritten() >= c.FailAt {
				return true
			}
			time.Sleep(200 * time.Microsecond)
		}
		return false
	}
	for i, m := range c.Msgs {
		if m.Kind == "choke" {
			// choke discards piece messages still queued in the writer (documented); wait until everything
			// sent so far is on the wire so that the expected stream is deterministic.
			if !waitFrames(i) {
				return core.Failf("after 20 s the remote has fewer than the %d frames sent so far", i)
			}
		}
		send(w, m)
	}
	if !waitFrames(len(c.Msgs)) {
		capMu.Lock()
		fr, _ := refwire.SplitFrames(captured)
		capMu.Unlock()
		return core.Failf("after 20 s the remote has %d complete frames; %d messages were sent", len(fr), len(c.Msgs))
	}
	// The writer reports each block after the write returns; give the report time to arrive before stopping
	// (a report racing with Stop is dropped by design: the peer is gone). Converging late is fine, not converging is not.
	{
		deadline := time.Now().Add(3 * time.Second)
		for time.Now().Before(deadline) {
			capMu.Lock()
			fr, rest := refwire.SplitFrames(captured)
			capLen := len(captured)
			capMu.Unlock()
			var got uint64
			for i, f := range fr {
				if i < len(exp) && exp[i].Kind == "piece" {
					got += uint64(len(f) - 9)
				}
			}
			if c.FailAt > 0 && len(fr) < len(exp) && exp[len(fr)].Kind == "piece" && len(rest) > 13 {
				got += uint64(len(rest) - 13)
			}
			drained := capLen == a.BytesWritten()
			if drained && atomic.LoadUint64(&uploaded) == got && (c.FailAt == 0 || a.BytesWritten() >= c.FailAt || len(fr) == len(exp)) {
				break
			}
			time.Sleep(200 * time.Microsecond)
		}
	}
	w.Stop()
	<-w.Done()
	a.Close()
	<-capDone
	close(stopCount)
	wg.Wait()

	frames, rest := refwire.SplitFrames(captured)
	kinds := map[string]bool{}
	// compare frame by frame
	var payloadReceived uint64
	for i, f := range frames {
		if i >= len(exp) {
			return core.Failf("remote received %d frames, only %d messages were sent", len(frames), len(exp))
		}
		if s := checkFrame(f, exp[i]); s != "" {
			return core.Failf("message %d (%s): %s", i, exp[i].Kind, s)
		}
		kinds[exp[i].Kind] = true
		if exp[i].Kind == "piece" {
			payloadReceived += uint64(len(f) - 9)
		}
	}
	if c.FailAt == 0 {
		if len(frames) != len(exp) || len(rest) != 0 {
			return core.Failf("remote received %d complete frames and %d trailing bytes; %d messages were sent", len(frames), len(rest), len(exp))
		}
	} else if len(frames) < len(exp) && exp[len(frames)].Kind == "piece" && len(rest) > 13 {
		payloadReceived += uint64(len(rest) - 13) // partially written last piece message
	}
	if uploaded != payloadReceived {
		return core.Failf("upload counter reports %d payload bytes, remote received %d (fail_at=%d)", uploaded, payloadReceived, c.FailAt)
	}

	// round trip through rain's own reader under fragmentation
	if c.RTrip && c.FailAt == 0 {
		got, err := readAll(captured, c.Reads2)
		if err != "" {
			return core.Failf("reader: %s", err)
		}
		if len(got) != len(exp) {
			return core.Failf("reader delivered %d messages, %d were emitted", len(got), len(exp))
		}
		for i := range exp {
			if s := sameDelivered(got[i], exp[i]); s != "" {
				return core.Failf("reader message %d (%s): %s", i, exp[i].Kind, s)
			}
		}
		res.Labels = append(res.Labels, "roundtrip")
	}
	splitHeader := false
	for _, r := range c.Reads2 {
		if r > 0 && r < 5 {
			splitHeader = true
		}
	}
	big := false
	for _, m := range exp {
		if (m.Kind == "ext-pex" || m.Kind == "ext-metadata" || m.Kind == "ext-handshake") && len(refwire.Encode(m)) > 512 {
			big = true
		}
		if m.Kind == "bitfield" && len(m.Data) > 0 {
			big = true
		}
	}
	for k := range kinds {
		res.Labels = append(res.Labels, k)
	}
	if c.FailAt > 0 {
		res.Labels = append(res.Labels, "write-fault")
	}
	res.Nontrivial = len(kinds) >= 3 && (big || splitHeader || c.FailAt > 0)
	return res
}

func readAll(stream []byte, sched []int) ([]any, string) {
	a, b := chunkconn.Pair(nil, sched)
	r := peerreader.New(b, logger.New("r"), time.Second, 1<<20, nil)
	go r.Run()
	go func() {
		a.Write(stream)
		a.Close()
	}()
	var got []any
	for {
		select {
		case m := <-r.Messages():
			if p, ok := m.(peerreader.Piece); ok {
				cp := append([]byte(nil), p.Buffer.Data...)
				p.Buffer.Release()
				got = append(got, refwire.Msg{Kind: "piece", Index: p.Index, Begin: p.Begin, Data: cp})
			} else {
				got = append(got, m)
			}
		case <-r.Done():
			return got, ""
		case <-time.After(10 * time.Second):
			return got, "reader stuck for 10 s"
		}
	}
}

func sameDelivered(got any, m refwire.Msg) string {
	rq := peerprotocol.RequestMessage{Index: m.Index, Begin: m.Begin, Length: m.Length}
	var want any
	switch m.Kind {
	case "choke":
		want = peerprotocol.ChokeMessage{}
	case "unchoke":
		want = peerprotocol.UnchokeMessage{}
	case "interested":
		want = peerprotocol.InterestedMessage{}
	case "notinterested":
		want = peerprotocol.NotInterestedMessage{}
	case "have":
		want = peerprotocol.HaveMessage{Index: m.Index}
	case "bitfield":
		g, ok := got.(peerprotocol.BitfieldMessage)
		if !ok || !bytes.Equal(g.Data, m.Data) {
			return fmt.Sprintf("got %T (%d bytes)", got, len(g.Data))
		}
		return ""
	case "request":
		want = rq
	case "cancel":
		want = peerprotocol.CancelMessage{RequestMessage: rq}
	case "reject":
		want = peerprotocol.RejectMessage{RequestMessage: rq}
	case "piece":
		g, ok := got.(refwire.Msg)
		if !ok || g.Index != m.Index || g.Begin != m.Begin || !bytes.Equal(g.Data, m.Data) {
			return fmt.Sprintf("got %T index %d begin %d, %d bytes", got, g.Index, g.Begin, len(g.Data))
		}
		return ""
	case "port":
		want = peerprotocol.PortMessage{Port: m.Port}
	case "haveall":
		want = peerprotocol.HaveAllMessage{}
	case "havenone":
		want = peerprotocol.HaveNoneMessage{}
	case "allowedfast":
		want = peerprotocol.AllowedFastMessage{HaveMessage: peerprotocol.HaveMessage{Index: m.Index}}
	case "ext-handshake":
		mm := map[string]uint8{}
		for k, v := range m.M {
			mm[k] = uint8(v)
		}
		g, ok := got.(peerprotocol.ExtensionHandshakeMessage)
		if !ok {
			return fmt.Sprintf("got %T", got)
		}
		if len(g.M) == 0 && len(mm) == 0 {
			g.M, mm = nil, nil
		}
		want = peerprotocol.ExtensionHandshakeMessage{M: mm, V: m.V, YourIP: string(m.YourIP), MetadataSize: int(m.MetadataSize), RequestQueue: int(m.Reqq)}
		got = g
	case "ext-metadata":
		g, ok := got.(peerprotocol.ExtensionMetadataMessage)
		if !ok || g.Type != int(m.MsgType) || g.Piece != m.Index || g.TotalSize != int(m.TotalSize) || !bytes.Equal(g.Data, m.Data) {
			return fmt.Sprintf("got %T %+v", got, clipMeta(g))
		}
		return ""
	case "ext-pex":
		want = peerprotocol.ExtensionPEXMessage{Added: string(m.Added), Dropped: string(m.Dropped)}
	}
	if !reflect.DeepEqual(got, want) {
		return fmt.Sprintf("got %T %+v, want %T %+v", got, got, want, want)
	}
	return ""
}

func clipMeta(g peerprotocol.ExtensionMetadataMessage) peerprotocol.ExtensionMetadataMessage {
	g.Data = clip(g.Data, 8)
	return g
}

func TestWire(t *testing.T) { core.Run(t, "c11.wire", genWire, runWire) }
