package c11

import (
	"fmt"
	"testing"
	"time"

	"github.com/cenkalti/rain/v2/internal/logger"
	"github.com/cenkalti/rain/v2/internal/peerconn/peerreader"
	"github.com/cenkalti/rain/v2/verifharness/chunkconn"
	"github.com/cenkalti/rain/v2/verifharness/core"
	"github.com/cenkalti/rain/v2/verifharness/refwire"
	"pgregory.net/rapid"
)

// c11.slow: "the client's own reader decodes every emitted message back to an identical message however the transport
// fragments the byte stream" with time in the picture: a piece message trickles in as fragments separated by pauses,
// so that the reader's per-block timeout expires several times while bytes keep arriving (the reader is documented
// to keep receiving then), and is followed by further messages that must still decode.
type SlowCase struct {
	BlockLen  int    `json:"block_len"`
	Fragment  int    `json:"fragment"`   // bytes per write of the block's data
	GapMs     int    `json:"gap_ms"`     // pause between fragments
	TimeoutMs int    `json:"timeout_ms"` // the reader's piece timeout
	Index     uint32 `json:"index"`
	Begin     uint32 `json:"begin"`
	Seed      int    `json:"seed"`
	Tail      int    `json:"tail"` // have messages sent after the block
}

func genSlow(t *rapid.T) SlowCase {
	c := SlowCase{BlockLen: rapid.SampledFrom([]int{1, 100, 5000, 16383, 16384}).Draw(t, "blockLen")}
	c.TimeoutMs = rapid.SampledFrom([]int{25, 40, 60}).Draw(t, "timeout")
	c.GapMs = rapid.SampledFrom([]int{0, 3, 8, 12}).Draw(t, "gap")
	// the fragment size follows from how many expiries of the timeout the block is meant to span
	k := rapid.SampledFrom([]int{0, 1, 2, 2, 3, 3, 5, 8}).Draw(t, "expiries")
	if c.GapMs == 0 || k == 0 {
		c.Fragment = rapid.SampledFrom([]int{1, 50, 700, 4096, 16384}).Draw(t, "fragment")
		if c.GapMs > 0 && c.BlockLen/c.Fragment*c.GapMs > 900 {
			c.Fragment = c.BlockLen*c.GapMs/900 + 1
		}
	} else {
		nf := k*c.TimeoutMs/c.GapMs + 2
		c.Fragment = max(1, (c.BlockLen+nf-1)/nf)
	}
	c.Index = rapid.Uint32Range(0, 1000).Draw(t, "index")
	c.Begin = uint32(rapid.IntRange(0, 8).Draw(t, "beginBlocks")) * 16384
	c.Seed = rapid.IntRange(1, 1000).Draw(t, "seed")
	c.Tail = rapid.IntRange(1, 3).Draw(t, "tail")
	return c
}

func runSlow(c SlowCase) core.Result {
	data := make([]byte, c.BlockLen)
	x := uint32(c.Seed)
	for i := range data {
		x = x*1664525 + 1013904223
		data[i] = byte(x >> 24)
	}
	pieceMsg := refwire.Msg{Kind: "piece", Index: c.Index, Begin: c.Begin, Data: data}
	frame := refwire.Encode(pieceMsg)
	a, b := chunkconn.Pair(nil, nil)
	timeout := time.Duration(c.TimeoutMs) * time.Millisecond
	r := peerreader.New(b, logger.New("r"), timeout, 1<<20, nil)
	go r.Run()
	// feeder: the 13-byte header at once, then the data in fragments with pauses; it records the longest pause it
	// actually made (a loaded machine may stretch a pause beyond the reader's timeout, which legitimately ends the read)
	var maxPause time.Duration
	fed := make(chan struct{})
	go func() {
		defer close(fed)
		a.Write(frame[:13])
		last := time.Now()
		for off := 13; off < len(frame); off += c.Fragment {
			if c.GapMs > 0 {
				time.Sleep(time.Duration(c.GapMs) * time.Millisecond)
			}
			if p := time.Since(last); p > maxPause {
				maxPause = p
			}
			a.Write(frame[off:min(off+c.Fragment, len(frame))])
			last = time.Now()
		}
		for k := 0; k < c.Tail; k++ {
			a.Write(refwire.Encode(refwire.Msg{Kind: "have", Index: c.Index + uint32(k) + 1}))
		}
		time.Sleep(20 * time.Millisecond)
		a.Close()
	}()
	var got []any
	done := false
	for !done {
		select {
		case m := <-r.Messages():
			if p, ok := m.(peerreader.Piece); ok {
				cp := append([]byte(nil), p.Buffer.Data...)
				p.Buffer.Release()
				got = append(got, refwire.Msg{Kind: "piece", Index: p.Index, Begin: p.Begin, Data: cp})
			} else {
				got = append(got, m)
			}
		case <-r.Done():
			done = true
		case <-time.After(10 * time.Second):
			return core.Failf("reader stuck for 10 s")
		}
	}
	<-fed
	res := core.Result{}
	total := time.Duration(0)
	if c.GapMs > 0 {
		total = time.Duration((c.BlockLen+c.Fragment-1)/c.Fragment*c.GapMs) * time.Millisecond
	}
	expiries := int(total / timeout)
	res.Labels = append(res.Labels, fmt.Sprintf("timeouts-within-block>=%d", min(expiries, 3)))
	res.Nontrivial = expiries >= 2
	if maxPause > timeout*7/10 {
		res.Inconcl = "a pause between two fragments came close to the reader's timeout (loaded machine): the reader may give up"
		res.Nontrivial = false
		return res
	}
	want := []refwire.Msg{pieceMsg}
	for k := 0; k < c.Tail; k++ {
		want = append(want, refwire.Msg{Kind: "have", Index: c.Index + uint32(k) + 1})
	}
	if len(got) != len(want) {
		return core.Failf("a block of %d bytes arriving in fragments of %d every %d ms (piece timeout %d ms, i.e. about %d expiries with bytes still arriving) followed by %d have messages: the reader delivered %d of %d messages before it stopped",
			c.BlockLen, c.Fragment, c.GapMs, c.TimeoutMs, expiries, c.Tail, len(got), len(want))
	}
	for i := range want {
		if d := sameDelivered(got[i], want[i]); d != "" {
			return core.Failf("message %d (%s) after a slow block (fragments of %d every %d ms, piece timeout %d ms): %s", i, want[i].Kind, c.Fragment, c.GapMs, c.TimeoutMs, d)
		}
	}
	return res
}

func TestSlow(t *testing.T) { core.Run(t, "c11.slow", genSlow, runSlow) }
