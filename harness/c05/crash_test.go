package c05

import (
	"bytes"
	"crypto/sha1"
	"encoding/json"
	"fmt"
	"net"
	"os"
	"os/exec"
	"path/filepath"
	"strings"
	"sync"
	"syscall"
	"testing"
	"time"

	"github.com/cenkalti/rain/v2/internal/logger"
	"github.com/cenkalti/rain/v2/internal/resumer/boltdbresumer"
	"github.com/cenkalti/rain/v2/internal/storage"
	"github.com/cenkalti/rain/v2/internal/storage/filestorage"
	"github.com/cenkalti/rain/v2/torrent"
	"github.com/cenkalti/rain/v2/verifharness/core"
	"github.com/cenkalti/rain/v2/verifharness/model"
	"github.com/cenkalti/rain/v2/verifharness/refwire"
	"github.com/cenkalti/rain/v2/verifharness/sess"
	"github.com/cenkalti/rain/v2/verifharness/speer"
	"go.etcd.io/bbolt"
	"pgregory.net/rapid"
)

func TestMain(m *testing.M) {
	if os.Getenv("VERIF_DEBUG") == "" {
		logger.Disable()
	}
	if role := os.Getenv("VERIF_C05_ROLE"); role != "" {
		var c CrashCase
		b, _ := os.ReadFile(os.Getenv("VERIF_C05_CASE"))
		if err := json.Unmarshal(b, &c); err != nil {
			fmt.Fprintln(os.Stderr, "c05 child:", err)
			os.Exit(2)
		}
		dir := os.Getenv("VERIF_C05_DIR")
		switch role {
		case "download":
			downloadRole(c, dir)
		case "restart":
			restartRole(c, dir)
		}
		os.Exit(0)
	}
	os.Exit(m.Run())
}

// CrashCase: a download on the real file storage that is killed at a generated point, then restarted.
type CrashCase struct {
	L        model.Layout `json:"layout"`
	Point    string       `json:"point"` // write-entry | write-exit | after-complete | after-stop | after-verify
	K        int          `json:"k"`     // which storage write (0-based) for the write-* points; for after-stop: stop after K writes
	DelayMs  int          `json:"delay_ms"`
	ResumeMs int          `json:"resume_write_interval_ms"`
	Delete   []int        `json:"delete_files"` // indexes (mod number of data files) of files removed before the restart
	WriteMs  int          `json:"write_delay_ms"`
}

func genCrash(t *rapid.T) CrashCase {
	c := CrashCase{L: model.GenLayout(t, model.LayoutOpts{MaxTotal: 160 << 10, MaxPieces: 24, MaxFiles: 4})}
	c.Point = rapid.SampledFrom([]string{"write-entry", "write-exit", "write-exit", "write-entry", "after-complete", "after-stop", "after-verify", "write-error", "write-error"}).Draw(t, "point")
	c.K = rapid.IntRange(0, 24).Draw(t, "k")
	c.DelayMs = rapid.SampledFrom([]int{0, 0, 2, 10, 30}).Draw(t, "delay")
	c.ResumeMs = rapid.SampledFrom([]int{1, 2, 5}).Draw(t, "resume")
	c.WriteMs = rapid.SampledFrom([]int{0, 0, 1, 4}).Draw(t, "writeMs")
	if rapid.IntRange(0, 3).Draw(t, "del") == 0 {
		c.Delete = rapid.SliceOfN(rapid.IntRange(0, 7), 1, 3).Draw(t, "delete")
	}
	return c
}

const torrentID = "t1"

// ---- storage wrapper that can kill its own process ----

type killStorage struct {
	inner storage.Storage
	c     *CrashCase
	mu    *sync.Mutex
	n     *int
}

func (s killStorage) RootDir() string { return s.inner.RootDir() }
func (s killStorage) Open(name string, size int64) (storage.File, bool, error) {
	f, ex, err := s.inner.Open(name, size)
	if err != nil {
		return nil, ex, err
	}
	return killFile{f, s}, ex, nil
}

type killFile struct {
	storage.File
	s killStorage
}

func die() {
	_ = syscall.Kill(os.Getpid(), syscall.SIGKILL)
	select {}
}

func (f killFile) WriteAt(p []byte, off int64) (int, error) {
	f.s.mu.Lock()
	k := *f.s.n
	*f.s.n = k + 1
	f.s.mu.Unlock()
	c := f.s.c
	if c.WriteMs > 0 {
		time.Sleep(time.Duration(c.WriteMs) * time.Millisecond)
	}
	if c.Point == "write-entry" && k == c.K {
		time.Sleep(time.Duration(c.DelayMs) * time.Millisecond)
		die()
	}
	if c.Point == "write-error" && k == c.K {
		// the disk is full: nothing is written; the client stops the torrent with the error, the process dies a little later
		go func() {
			time.Sleep(time.Duration(20+c.DelayMs) * time.Millisecond)
			die()
		}()
		return 0, syscall.ENOSPC
	}
	n, err := f.File.WriteAt(p, off)
	if c.Point == "write-exit" && k == c.K {
		time.Sleep(time.Duration(c.DelayMs) * time.Millisecond)
		die()
	}
	return n, err
}

type killProvider struct {
	dir string
	c   *CrashCase
	mu  sync.Mutex
	n   int
}

func (p *killProvider) GetStorage(id string) (storage.Storage, error) {
	fs, err := filestorage.New(filepath.Join(p.dir, "data", id), 0o750)
	if err != nil {
		return nil, err
	}
	return killStorage{fs, p.c, &p.mu, &p.n}, nil
}

func config(c *CrashCase, dir string) torrent.Config {
	cfg := sess.Config(dir)
	cfg.ResumeWriteInterval = time.Duration(c.ResumeMs) * time.Millisecond
	cfg.ResumeOnStartup = true
	return cfg
}

// downloadRole runs in a child: it downloads from an in-process honest seeder and kills itself at the crash point.
func downloadRole(c CrashCase, dir string) {
	l := &c.L
	F := l.Flat()
	ih := l.InfoHash(F)
	cfg := config(&c, dir)
	prov := &killProvider{dir: dir, c: &c}
	cfg.CustomStorage = prov
	ses, err := torrent.NewSession(cfg)
	if err != nil {
		fmt.Fprintln(os.Stderr, "session:", err)
		os.Exit(2)
	}
	ln, err := net.Listen("tcp4", sess.IP(1)+":0")
	if err != nil {
		panic(err)
	}
	go func() {
		for {
			conn, err := ln.Accept()
			if err != nil {
				return
			}
			go func() {
				var id [20]byte
				copy(id[:], "-SP0001-000000000001")
				p, err := speer.Accept(conn, speer.Opts{InfoHash: ih, PeerID: id, Fast: true, Ext: true, Reqq: 250}, 3*time.Second)
				if err != nil {
					return
				}
				speer.Serve(p, speer.Behaviour{DelayPerBlockMs: 1}, F, int(l.PieceLength))
			}()
		}
	}()
	tor, err := ses.AddTorrent(bytes.NewReader(l.Metainfo(F, nil, nil)), &torrent.AddTorrentOptions{ID: torrentID})
	if err != nil {
		fmt.Fprintln(os.Stderr, "add:", err)
		os.Exit(2)
	}
	_ = tor.AddPeer(ln.Addr().String())
	writes := func() int { prov.mu.Lock(); defer prov.mu.Unlock(); return prov.n }
	switch c.Point {
	case "after-stop":
		for i := 0; i < 2000 && writes() < c.K; i++ {
			select {
			case <-tor.NotifyComplete():
				i = 5000
			default:
				time.Sleep(time.Millisecond)
			}
		}
		_ = tor.Stop()
		time.Sleep(time.Duration(c.DelayMs) * time.Millisecond)
		die()
	case "after-verify":
		select {
		case <-tor.NotifyComplete():
		case <-time.After(20 * time.Second):
		}
		_ = tor.Verify()
		time.Sleep(time.Duration(c.DelayMs*3) * time.Millisecond)
		die()
	}
	select {
	case <-tor.NotifyComplete():
	case <-time.After(20 * time.Second):
	}
	// after-complete, or the crash point was never reached
	if c.Point == "count" {
		_ = os.WriteFile(filepath.Join(dir, "writes.txt"), []byte(fmt.Sprint(writes())), 0o644)
	}
	time.Sleep(time.Duration(c.DelayMs) * time.Millisecond)
	die()
}

type restartReport struct {
	Found     bool   `json:"found"`
	Status    string `json:"status"`
	Have      int    `json:"have"`
	Bits      []int  `json:"bits"` // pieces announced to a probing peer (bitfield / have / have-all)
	Probed    bool   `json:"probed"`
	SyncOpen  int    `json:"sync_open"`  // data files open with O_SYNC / O_DSYNC
	PlainOpen int    `json:"plain_open"` // data files open without
	Err       string `json:"err,omitempty"`
}

// restartRole runs in a child: a fresh session on the same database and directory, no peers.
func restartRole(c CrashCase, dir string) {
	l := &c.L
	F := l.Flat()
	ih := l.InfoHash(F)
	var rep restartReport
	defer func() {
		b, _ := json.Marshal(rep)
		_ = os.WriteFile(filepath.Join(dir, "restart.json"), b, 0o644)
	}()
	cfg := config(&c, dir) // real file storage of the client (no wrapper)
	ses, err := torrent.NewSession(cfg)
	if err != nil {
		rep.Err = "session: " + err.Error()
		return
	}
	defer ses.Close()
	tor := ses.GetTorrent(torrentID)
	if tor == nil {
		return
	}
	rep.Found = true
	_ = tor.Start()
	var st torrent.Stats
	for i := 0; i < 1000; i++ {
		st = tor.Stats()
		if st.Status == torrent.Downloading || st.Status == torrent.Seeding || (st.Status == torrent.Stopped && st.Error != nil) {
			break
		}
		time.Sleep(10 * time.Millisecond)
	}
	rep.Status, rep.Have = st.Status.String(), int(st.Pieces.Have)
	if st.Error != nil {
		rep.Err = st.Error.Error()
	}
	// open-file flags of the data files
	ents, _ := os.ReadDir("/proc/self/fd")
	for _, e := range ents {
		target, err := os.Readlink("/proc/self/fd/" + e.Name())
		if err != nil || !strings.HasPrefix(target, filepath.Join(dir, "data")) {
			continue
		}
		b, err := os.ReadFile("/proc/self/fdinfo/" + e.Name())
		if err != nil {
			continue
		}
		for _, line := range strings.Split(string(b), "\n") {
			if strings.HasPrefix(line, "flags:") {
				var flags int64
				fmt.Sscanf(strings.TrimSpace(strings.TrimPrefix(line, "flags:")), "%o", &flags)
				if flags&(syscall.O_SYNC|syscall.O_DSYNC) != 0 {
					rep.SyncOpen++
				} else {
					rep.PlainOpen++
				}
			}
		}
	}
	// what it tells a peer
	var id [20]byte
	copy(id[:], "-SP0001-000000000009")
	p, err := speer.Dial(sess.IP(9), fmt.Sprintf("%s:%d", sess.IP(0), tor.Port()), speer.Opts{InfoHash: ih, PeerID: id, Fast: true, Ext: true}, 2*time.Second)
	if err == nil {
		defer p.Close()
		p.Send(refwire.Msg{Kind: "havenone"})
		if _, ok := p.Barrier(2 * time.Second); ok {
			rep.Probed = true
			np := l.NumPieces()
			for _, e := range p.Log() {
				if e.Out {
					continue
				}
				switch e.Msg.Kind {
				case "haveall":
					for i := 0; i < np; i++ {
						rep.Bits = append(rep.Bits, i)
					}
				case "have":
					rep.Bits = append(rep.Bits, int(e.Msg.Index))
				case "bitfield":
					for i := 0; i < len(e.Msg.Data)*8; i++ {
						if e.Msg.Data[i/8]&(0x80>>(i%8)) != 0 {
							rep.Bits = append(rep.Bits, i)
						}
					}
				}
			}
		}
	}
}

func spawn(role string, c CrashCase, dir string, timeout time.Duration) (string, error) {
	cf := filepath.Join(dir, "case.json")
	b, _ := json.Marshal(c)
	_ = os.WriteFile(cf, b, 0o644)
	cmd := exec.Command(os.Args[0], "-test.run", "^$")
	cmd.Env = append(os.Environ(), "VERIF_C05_ROLE="+role, "VERIF_C05_CASE="+cf, "VERIF_C05_DIR="+dir, "TMPDIR="+dir)
	var out bytes.Buffer
	cmd.Stdout, cmd.Stderr = &out, &out
	if err := cmd.Start(); err != nil {
		return "", err
	}
	done := make(chan error, 1)
	go func() { done <- cmd.Wait() }()
	select {
	case err := <-done:
		return out.String(), err
	case <-time.After(timeout):
		_ = cmd.Process.Kill()
		<-done
		return out.String(), fmt.Errorf("timeout")
	}
}

func runCrash(c CrashCase) core.Result {
	l := &c.L
	F := l.Flat()
	pl := int(l.PieceLength)
	dir, cleanup := sess.Scratch("c05")
	defer cleanup()
	res := core.Result{Labels: []string{c.Point}}
	out, err := spawn("download", c, dir, 40*time.Second)
	if err == nil || !strings.Contains(err.Error(), "killed") {
		if strings.Contains(out, "panic:") || strings.Contains(out, "fatal error:") {
			return core.Failf("the downloading client crashed by itself:\n%s", out[max(0, len(out)-3000):])
		}
		return core.Result{Inconcl: fmt.Sprintf("download child did not die by SIGKILL (%v)", err)}
	}
	// ---- (a) the resume database reopens and the record decodes ----
	dbPath := filepath.Join(dir, "session.db")
	db, err := bbolt.Open(dbPath, 0o600, &bbolt.Options{Timeout: time.Second})
	if err != nil {
		return core.Failf("after the kill the resume database does not open: %v", err)
	}
	rs, err := boltdbresumer.New(db, []byte("torrents"))
	if err != nil {
		db.Close()
		return core.Failf("resumer: %v", err)
	}
	spec, err := rs.Read(torrentID)
	db.Close()
	if err != nil {
		return core.Failf("after the kill the torrent's resume record does not decode: %v", err)
	}
	// ---- optional: files removed before the restart ----
	dataRoot := filepath.Join(dir, "data", torrentID)
	var dataFiles []int
	for i, f := range l.Files {
		if f.Pad == 0 {
			dataFiles = append(dataFiles, i)
		}
	}
	deleted := map[int]bool{}
	for _, d := range c.Delete {
		if len(dataFiles) == 0 {
			break
		}
		fi := dataFiles[d%len(dataFiles)]
		if err := os.Remove(filepath.Join(dataRoot, l.ExpectedPath(fi))); err == nil {
			deleted[fi] = true
		}
	}
	// ---- (b) V: pieces whose content on disk matches the metainfo ----
	offs := l.FileOffsets()
	disk := make([]byte, len(F))
	present := make([]bool, len(F))
	for i, f := range l.Files {
		if f.Pad != 0 {
			for k := offs[i]; k < offs[i]+f.Length; k++ {
				present[k] = true
			}
			continue
		}
		b, err := os.ReadFile(filepath.Join(dataRoot, l.ExpectedPath(i)))
		if err != nil {
			continue
		}
		n := copy(disk[offs[i]:offs[i]+f.Length], b)
		for k := offs[i]; k < offs[i]+int64(n); k++ {
			present[k] = true
		}
	}
	np := l.NumPieces()
	V := make([]bool, np)
	nV := 0
	pieces := l.PiecesString(F)
	for p := 0; p < np; p++ {
		end := min((p+1)*pl, len(F))
		ok := true
		for k := p * pl; k < end; k++ {
			if !present[k] {
				ok = false
				break
			}
		}
		if ok {
			h := sha1.Sum(disk[p*pl : end])
			ok = bytes.Equal(h[:], pieces[p*20:p*20+20])
		}
		V[p] = ok
		if ok {
			nV++
		}
	}
	persisted := 0
	for i := 0; i < np; i++ {
		if i/8 < len(spec.Bitfield) && spec.Bitfield[i/8]&(0x80>>(i%8)) != 0 {
			persisted++
			// the persisted bitfield itself may be ahead only if the restart re-checks; judged through the restarted client below,
			// except when nothing was deleted: then resume state on disk must never claim more than the data on disk
			if !V[i] && len(deleted) == 0 {
				return core.Failf("resume data on disk claims piece %d, whose content is not (completely) on disk after the kill (%s, write %d, delay %d ms); %d pieces verify on disk, %d are claimed",
					i, c.Point, c.K, c.DelayMs, nV, persisted)
			}
		}
	}
	// ---- (c) restart on the same database and directory, no peers ----
	out, err = spawn("restart", c, dir, 40*time.Second)
	b, rerr := os.ReadFile(filepath.Join(dir, "restart.json"))
	if err != nil || rerr != nil {
		return core.Failf("the restarted client did not come up cleanly (%v):\n%s", err, out[max(0, len(out)-3000):])
	}
	var rep restartReport
	_ = json.Unmarshal(b, &rep)
	if !rep.Found {
		return core.Failf("after the restart the torrent is gone from the session although its resume record exists")
	}
	if rep.Status != "Downloading" && rep.Status != "Seeding" {
		return core.Failf("the restarted torrent ended %s (error %q) instead of resuming", rep.Status, rep.Err)
	}
	if rep.Have > nV {
		return core.Failf("after the restart the client reports %d pieces downloaded, only %d verify on disk (%s, write %d, delay %d ms, deleted files %v, persisted bits %d)",
			rep.Have, nV, c.Point, c.K, c.DelayMs, keys(deleted), persisted)
	}
	for _, i := range rep.Bits {
		if i >= np || !V[i] {
			return core.Failf("after the restart the client announces piece %d to a peer, which does not verify on disk (%s, write %d, delay %d ms, deleted files %v)", i, c.Point, c.K, c.DelayMs, keys(deleted))
		}
	}
	if rep.PlainOpen > 0 {
		return core.Failf("%d data files are open without O_SYNC/O_DSYNC (%d with): writes can be reported complete and persisted in the resume data before they are durable", rep.PlainOpen, rep.SyncOpen)
	}
	if len(deleted) > 0 {
		res.Labels = append(res.Labels, "files-deleted")
	}
	if persisted > 0 {
		res.Labels = append(res.Labels, "bits-persisted")
	}
	if nV > 0 && nV < np {
		res.Labels = append(res.Labels, "partial-on-disk")
	}
	if rep.Probed {
		res.Labels = append(res.Labels, "probed")
	}
	res.Nontrivial = (persisted > 0 && nV < np) || len(deleted) > 0
	return res
}

func keys(m map[int]bool) []int {
	var out []int
	for k := range m {
		out = append(out, k)
	}
	return out
}

func TestCrash(t *testing.T) { core.Run(t, "c05.crash", genCrash, runCrash) }

// ---- enumeration: every write entry and exit of a small layout ----

type EnumCase struct {
	L        model.Layout `json:"layout"`
	ResumeMs int          `json:"resume_write_interval_ms"`
	WriteMs  int          `json:"write_delay_ms"`
	Delays   []int        `json:"delays_ms"`
}

func genEnum(t *rapid.T) EnumCase {
	c := EnumCase{L: model.GenLayout(t, model.LayoutOpts{MaxTotal: 96 << 10, MaxPieces: 8, MaxFiles: 3})}
	c.ResumeMs = rapid.SampledFrom([]int{1, 2}).Draw(t, "resume")
	c.WriteMs = rapid.SampledFrom([]int{0, 1, 3}).Draw(t, "writeMs")
	c.Delays = []int{0, rapid.SampledFrom([]int{2, 5, 12}).Draw(t, "delay")}
	return c
}

func runEnum(c EnumCase) core.Result {
	dir, cleanup := sess.Scratch("c05n")
	out, err := spawn("download", CrashCase{L: c.L, Point: "count", ResumeMs: c.ResumeMs, WriteMs: c.WriteMs}, dir, 40*time.Second)
	b, rerr := os.ReadFile(filepath.Join(dir, "writes.txt"))
	cleanup()
	if rerr != nil {
		return core.Result{Inconcl: fmt.Sprintf("dry run did not complete (%v): %s", err, out[max(0, len(out)-500):])}
	}
	var n int
	fmt.Sscan(string(b), &n)
	res := core.Result{Counts: map[string]int{}}
	points := 0
	for k := 0; k < n; k++ {
		for _, pt := range []string{"write-entry", "write-exit"} {
			for _, d := range c.Delays {
				r := runCrash(CrashCase{L: c.L, Point: pt, K: k, DelayMs: d, ResumeMs: c.ResumeMs, WriteMs: c.WriteMs})
				if r.Err != "" {
					return core.Failf("crash point (%s of write %d of %d, delay %d ms): %s", pt, k, n, d, r.Err)
				}
				points++
			}
		}
	}
	res.Counts["crash-points-enumerated"] = points
	res.Counts["storage-writes"] = n
	res.Nontrivial = n >= 2
	res.Sample = map[string]any{"layout": c.L, "writes": n, "crash_points": points}
	return res
}

func TestCrashEnum(t *testing.T) { core.Run(t, "c05.enum", genEnum, runEnum) }
