package c15

import (
	"context"
	"fmt"
	"net/http"
	"net/url"
	"os"
	"strconv"
	"testing"
	"time"

	"github.com/cenkalti/rain/v2/internal/logger"
	"github.com/cenkalti/rain/v2/internal/tracker"
	"github.com/cenkalti/rain/v2/internal/tracker/httptracker"
	"github.com/cenkalti/rain/v2/internal/tracker/udptracker"
	"github.com/cenkalti/rain/v2/verifharness/core"
	"github.com/cenkalti/rain/v2/verifharness/model"
	"github.com/cenkalti/rain/v2/verifharness/strk"
	"pgregory.net/rapid"
)

func TestMain(m *testing.M) {
	if os.Getenv("VERIF_DEBUG") == "" {
		logger.Disable()
	}
	os.Exit(m.Run())
}

// AnnCase: identity and counters of a torrent announced over one transport.
type AnnCase struct {
	Transport string `json:"transport"` // http | udp
	InfoHash  []byte `json:"info_hash"`
	PeerID    []byte `json:"peer_id"`
	Port      int    `json:"port"`
	Up        int64  `json:"uploaded"`
	Down      int64  `json:"downloaded"`
	Left      int64  `json:"left"`
	Event     int    `json:"event"` // 0 none 1 completed 2 started 3 stopped
	NumWant   int    `json:"numwant"`
	URLQuery  string `json:"url_query,omitempty"` // tracker URL already carries a query (http) / url data (udp)
}

var edgeI64 = []int64{0, 1, 255, 1 << 31, 1<<32 - 1, 1 << 32, 1 << 40, 1<<63 - 1}

func gen20(t *rapid.T, l string) []byte {
	switch rapid.IntRange(0, 3).Draw(t, l+"Class") {
	case 0:
		return []byte("-RN0.0.0-" + rapid.StringMatching(`[a-zA-Z0-9]{11}`).Draw(t, l))
	case 1: // bytes that need escaping, zeros, high bits, especially in the last four
		b := make([]byte, 20)
		for i := range b {
			b[i] = rapid.SampledFrom([]byte{0, 1, ' ', '%', '&', '=', '+', '/', '?', 0x7f, 0x80, 0xff, 'a'}).Draw(t, l+"B")
		}
		return b
	default:
		return rapid.SliceOfN(rapid.Byte(), 20, 20).Draw(t, l)
	}
}

func genAnn(t *rapid.T) AnnCase {
	c := AnnCase{Transport: rapid.SampledFrom([]string{"http", "udp"}).Draw(t, "transport")}
	c.InfoHash, c.PeerID = gen20(t, "ih"), gen20(t, "pid")
	c.Port = rapid.SampledFrom([]int{1, 80, 6881, 50000, 65535, 32768, 256, 255}).Draw(t, "port")
	cnt := func(l string) int64 {
		if rapid.Bool().Draw(t, l+"Edge") {
			return rapid.SampledFrom(edgeI64).Draw(t, l)
		}
		return rapid.Int64Range(0, 1<<50).Draw(t, l)
	}
	c.Up, c.Down, c.Left = cnt("up"), cnt("down"), cnt("left")
	c.Event = rapid.IntRange(0, 3).Draw(t, "event")
	c.NumWant = rapid.SampledFrom([]int{0, 1, 50, 200, 1000}).Draw(t, "numwant")
	if rapid.IntRange(0, 3).Draw(t, "hasQuery") == 0 {
		c.URLQuery = rapid.SampledFrom([]string{"passkey=abc123", "k=v&x=y", "auth=%20z"}).Draw(t, "query")
	}
	return c
}

func runAnn(c AnnCase) core.Result {
	var ih, pid [20]byte
	copy(ih[:], c.InfoHash)
	copy(pid[:], c.PeerID)
	req := tracker.AnnounceRequest{
		Torrent: tracker.Torrent{BytesUploaded: c.Up, BytesDownloaded: c.Down, BytesLeft: c.Left, InfoHash: ih, PeerID: pid, Port: c.Port},
		Event:   tracker.Event(c.Event), NumWant: c.NumWant,
	}
	res := core.Result{Labels: []string{c.Transport}}
	res.Nontrivial = true
	ctx, cancel := context.WithTimeout(context.Background(), 10*time.Second)
	defer cancel()
	evName := []string{"", "completed", "started", "stopped"}[c.Event]
	if c.Transport == "http" {
		body := model.Benc(map[string]any{"interval": int64(1800), "peers": ""})
		tr, err := strk.NewHTTP("127.0.0.1:0", func(n int, r strk.HTTPReq) []byte { return strk.OKResponse(body) })
		if err != nil {
			panic(err)
		}
		defer tr.Close()
		raw := tr.URL()
		if c.URLQuery != "" {
			raw += "?" + c.URLQuery
		}
		u, _ := url.Parse(raw)
		ht := httptracker.New(raw, u, 5*time.Second, &http.Transport{DisableKeepAlives: true}, "UA/1", 1<<20)
		if _, err := ht.Announce(ctx, req); err != nil {
			return core.Failf("http announce failed against an answering tracker: %v", err)
		}
		reqs := tr.Requests()
		if len(reqs) != 1 {
			return core.Failf("tracker saw %d requests for one announce", len(reqs))
		}
		p := reqs[0].Params
		if string(p["info_hash"]) != string(ih[:]) {
			return core.Failf("info_hash on the wire %x, torrent %x (query %q)", p["info_hash"], ih, reqs[0].RawQuery)
		}
		if string(p["peer_id"]) != string(pid[:]) {
			return core.Failf("peer_id on the wire %x, torrent %x", p["peer_id"], pid)
		}
		num := func(k string) string { return string(p[k]) }
		if num("port") != strconv.Itoa(c.Port) || num("uploaded") != strconv.FormatInt(c.Up, 10) || num("downloaded") != strconv.FormatInt(c.Down, 10) || num("left") != strconv.FormatInt(c.Left, 10) {
			return core.Failf("port/uploaded/downloaded/left on the wire %s/%s/%s/%s, torrent %d/%d/%d/%d", num("port"), num("uploaded"), num("downloaded"), num("left"), c.Port, c.Up, c.Down, c.Left)
		}
		if num("event") != evName {
			return core.Failf("event on the wire %q, want %q", num("event"), evName)
		}
		if c.URLQuery != "" {
			k, _, _ := cut(c.URLQuery)
			if _, ok := p[k]; !ok {
				return core.Failf("tracker URL query parameter %q lost: %q", k, reqs[0].RawQuery)
			}
		}
		if reqs[0].UserAgent != "UA/1" {
			return core.Failf("user agent %q", reqs[0].UserAgent)
		}
		res.Sample = map[string]any{"case": c, "http_key": string(p["key"])}
		return res
	}
	// UDP
	ut, err := strk.NewUDP("127.0.0.1:0", func(n int, r strk.UDPReq) [][]byte {
		if r.Action == 0 {
			return [][]byte{strk.ConnectReply(r.TID, 0x1122334455667788)}
		}
		return [][]byte{strk.AnnounceReply(r.TID, 1800, 0, 0, nil)}
	})
	if err != nil {
		panic(err)
	}
	defer ut.Close()
	raw := ut.URL()
	if c.URLQuery != "" {
		raw += "?" + c.URLQuery
	}
	u, _ := url.Parse(raw)
	tp := udptracker.NewTransport(nil, 5*time.Second)
	go tp.Run()
	defer tp.Close()
	tk := udptracker.New(raw, u, tp)
	if _, err := tk.Announce(ctx, req); err != nil {
		return core.Failf("udp announce failed against an answering tracker: %v", err)
	}
	var ann []strk.UDPReq
	for _, r := range ut.Requests() {
		if r.Action == 1 {
			ann = append(ann, r)
		} else if r.Action == 0 && r.ConnID != 0x41727101980 {
			return core.Failf("connect request with protocol id %#x", r.ConnID)
		}
	}
	if len(ann) != 1 {
		return core.Failf("tracker saw %d announce datagrams for one announce", len(ann))
	}
	a := ann[0]
	if a.ConnID != 0x1122334455667788 {
		return core.Failf("announce carries connection id %#x, tracker issued 0x1122334455667788", a.ConnID)
	}
	if a.InfoHash != ih {
		return core.Failf("info_hash on the wire %x, torrent %x", a.InfoHash, ih)
	}
	if a.PeerID != pid {
		return core.Failf("peer_id on the wire %x, torrent presents %x to peers", a.PeerID, pid)
	}
	if int(a.Port) != c.Port || int64(a.Up) != c.Up || int64(a.Downloaded) != c.Down || int64(a.Left) != c.Left {
		return core.Failf("port/uploaded/downloaded/left on the wire %d/%d/%d/%d, torrent %d/%d/%d/%d", a.Port, a.Up, a.Downloaded, a.Left, c.Port, c.Up, c.Down, c.Left)
	}
	if int(a.Event) != c.Event {
		return core.Failf("event on the wire %d, want %d", a.Event, c.Event)
	}
	if int(a.NumWant) != c.NumWant {
		return core.Failf("numwant on the wire %d, want %d", a.NumWant, c.NumWant)
	}
	res.Sample = map[string]any{"case": c, "udp_key": fmt.Sprintf("%#x", a.Key)}
	return res
}

func cut(s string) (string, string, bool) {
	for i := 0; i < len(s); i++ {
		if s[i] == '=' {
			return s[:i], s[i+1:], true
		}
	}
	return s, "", false
}

func TestAnnounceWire(t *testing.T) { core.Run(t, "c15.wire", genAnn, runAnn) }
