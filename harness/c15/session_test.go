package c15

import (
	"bytes"
	"fmt"
	"net"
	"sort"
	"strings"
	"sync"
	"testing"
	"time"

	"github.com/cenkalti/rain/v2/torrent"
	"github.com/cenkalti/rain/v2/verifharness/core"
	"github.com/cenkalti/rain/v2/verifharness/model"
	"github.com/cenkalti/rain/v2/verifharness/refwire"
	"github.com/cenkalti/rain/v2/verifharness/sess"
	"github.com/cenkalti/rain/v2/verifharness/speer"
	"github.com/cenkalti/rain/v2/verifharness/sstore"
	"github.com/cenkalti/rain/v2/verifharness/strk"
	"pgregory.net/rapid"
)

// c15.session: a real session announces a real torrent (some pieces on storage, the rest possibly downloaded from a
// scripted seeder, blocks possibly uploaded to a scripted leecher) to scripted HTTP and UDP trackers over one or two
// runs. Every announce seen by a tracker is judged against the torrent's identity and the harness's own account of
// the pieces on storage and the bytes moved.

type STracker struct {
	UDP  bool   `json:"udp"`
	Mode string `json:"mode"` // ok | fail | silent
}

type SessCase struct {
	L           model.Layout `json:"layout"`
	Missing     []int        `json:"missing"` // pieces whose bytes on storage are wrong when the torrent is added
	Trackers    []STracker   `json:"trackers"`
	Seeder      bool         `json:"seeder"`       // a scripted seeder supplies the missing pieces during run 1
	LeechBlocks int          `json:"leech_blocks"` // blocks a scripted leecher downloads during run 1
	Periodic    bool         `json:"periodic"`     // wait for a periodic announce before stopping
	Runs        int          `json:"runs"`
	AddStopped  bool         `json:"add_stopped"`
}

func genSess(t *rapid.T) SessCase {
	c := SessCase{L: model.GenLayout(t, model.LayoutOpts{MaxTotal: 256 << 10, MaxPieces: 12, MaxFiles: 3, BigPieces: true})}
	l := &c.L
	if rapid.IntRange(0, 2).Draw(t, "exact") == 0 {
		// total length an exact multiple of the piece length: the last piece is full size
		if r := l.Total() % int64(l.PieceLength); r != 0 {
			for i := len(l.Files) - 1; i >= 0; i-- {
				if l.Files[i].Pad == 0 {
					l.Files[i].Length += int64(l.PieceLength) - r
					break
				}
			}
		}
	}
	np := l.NumPieces()
	switch rapid.IntRange(0, 3).Draw(t, "missingKind") {
	case 0: // nothing missing
	case 1: // only the last piece
		c.Missing = []int{np - 1}
	case 2: // everything but the last piece
		for i := 0; i < np-1; i++ {
			c.Missing = append(c.Missing, i)
		}
	default:
		for i := 0; i < np; i++ {
			if rapid.Bool().Draw(t, "miss") {
				c.Missing = append(c.Missing, i)
			}
		}
	}
	n := rapid.IntRange(1, 4).Draw(t, "ntrackers")
	for i := 0; i < n; i++ {
		c.Trackers = append(c.Trackers, STracker{UDP: rapid.Bool().Draw(t, "udp"), Mode: rapid.SampledFrom([]string{"ok", "ok", "ok", "fail", "silent"}).Draw(t, "mode")})
	}
	c.Seeder = rapid.Bool().Draw(t, "seeder")
	c.LeechBlocks = rapid.SampledFrom([]int{0, 0, 1, 3, 9}).Draw(t, "leech")
	c.Periodic = rapid.IntRange(0, 3).Draw(t, "periodic") == 0
	c.Runs = rapid.IntRange(1, 2).Draw(t, "runs")
	c.AddStopped = rapid.IntRange(0, 4).Draw(t, "addStopped") == 0
	return c
}

// ann is one announce in transport-neutral form.
type ann struct {
	at             time.Time
	ih, pid        [20]byte
	port           int
	up, down, left int64
	event          string
	trk            int
}

func udpEvent(e uint32) string {
	switch e {
	case 0:
		return ""
	case 1:
		return "completed"
	case 2:
		return "started"
	case 3:
		return "stopped"
	}
	return fmt.Sprintf("event-%d", e)
}

func runSess(c SessCase) core.Result {
	l := &c.L
	F := l.Flat()
	ih := l.InfoHash(F)
	np := l.NumPieces()
	pl := int(l.PieceLength)
	mask := l.PadMask()
	missing := map[int]bool{}
	for _, m := range c.Missing {
		for b := m * pl; b < min((m+1)*pl, len(F)); b++ {
			if !mask[b] {
				missing[m] = true // a piece can only be damaged if it has data bytes
			}
		}
	}
	total := l.Total()
	leftOf := func(miss map[int]bool) int64 {
		var n int64
		for m := range miss {
			n += int64(l.PieceLen(m))
		}
		return n
	}
	initialLeft := leftOf(missing)
	dir, cleanup := sess.Scratch("c15")
	defer cleanup()
	cfg := sess.Config(dir)
	prov := sstore.NewProvider()
	offs := l.FileOffsets()
	prov.Setup = func(id string, m *sstore.Mem) {
		for i, f := range l.Files {
			if f.Pad != 0 {
				continue
			}
			data := append([]byte(nil), F[offs[i]:offs[i]+f.Length]...)
			for pi := range missing {
				for b := pi * pl; b < min((pi+1)*pl, len(F)); b++ {
					if int64(b) >= offs[i] && int64(b) < offs[i]+f.Length {
						data[int64(b)-offs[i]] ^= 0xff
					}
				}
			}
			m.Files[l.ExpectedPath(i)] = sstore.NewMemFile(m, l.ExpectedPath(i), data)
		}
	}
	cfg.CustomStorage = prov

	// trackers
	var mu sync.Mutex
	accepted := make([][]time.Time, len(c.Trackers)) // when the tracker sent an OK reply to an announce
	var https []*strk.HTTPTracker
	var udps []*strk.UDPTracker
	var tiers [][]string
	httpOf, udpOf := map[int]*strk.HTTPTracker{}, map[int]*strk.UDPTracker{}
	okBody := model.Benc(map[string]any{"interval": int64(1), "peers": ""})
	failBody := model.Benc(map[string]any{"failure reason": "not today"})
	for i, st := range c.Trackers {
		i, st := i, st
		addr := sess.IP(60+i) + ":0"
		if st.UDP {
			u, err := strk.NewUDP(addr, func(n int, r strk.UDPReq) [][]byte {
				switch {
				case st.Mode == "silent":
					return nil
				case r.Action == 0:
					return [][]byte{strk.ConnectReply(r.TID, 0x1122334455667788+uint64(i))}
				case r.Action == 1 && st.Mode == "ok":
					mu.Lock()
					accepted[i] = append(accepted[i], time.Now())
					mu.Unlock()
					return [][]byte{strk.AnnounceReply(r.TID, 1, 0, 0, nil)}
				case r.Action == 1:
					return [][]byte{strk.ErrorReply(r.TID, []byte("not today"))}
				}
				return nil
			})
			if err != nil {
				return core.Result{Inconcl: "udp tracker: " + err.Error()}
			}
			defer u.Close()
			udps = append(udps, u)
			udpOf[i] = u
			tiers = append(tiers, []string{u.URL()})
		} else {
			h, err := strk.NewHTTP(addr, func(n int, r strk.HTTPReq) []byte {
				switch st.Mode {
				case "silent":
					return nil
				case "ok":
					mu.Lock()
					accepted[i] = append(accepted[i], time.Now())
					mu.Unlock()
					return strk.OKResponse(okBody)
				}
				return strk.OKResponse(failBody)
			})
			if err != nil {
				return core.Result{Inconcl: "http tracker: " + err.Error()}
			}
			defer h.Close()
			https = append(https, h)
			httpOf[i] = h
			tiers = append(tiers, []string{h.URL()})
		}
	}
	collect := func() []ann {
		var out []ann
		for i := range c.Trackers {
			if h := httpOf[i]; h != nil {
				for _, r := range h.Requests() {
					a := ann{at: r.At, trk: i, event: string(r.Params["event"])}
					copy(a.ih[:], r.Params["info_hash"])
					copy(a.pid[:], r.Params["peer_id"])
					if len(r.Params["info_hash"]) != 20 || len(r.Params["peer_id"]) != 20 {
						a.port = -1 // marks a malformed identity
					} else {
						fmt.Sscan(string(r.Params["port"]), &a.port)
					}
					a.up, a.down, a.left = -1, -1, -1
					fmt.Sscan(string(r.Params["uploaded"]), &a.up)
					fmt.Sscan(string(r.Params["downloaded"]), &a.down)
					fmt.Sscan(string(r.Params["left"]), &a.left)
					out = append(out, a)
				}
			}
			if u := udpOf[i]; u != nil {
				for _, r := range u.Requests() {
					if r.Action != 1 || len(r.Raw) < 98 {
						continue
					}
					out = append(out, ann{at: r.At, trk: i, event: udpEvent(r.Event), ih: r.InfoHash, pid: r.PeerID, port: int(r.Port),
						up: int64(r.Up), down: int64(r.Downloaded), left: int64(r.Left)})
				}
			}
		}
		sort.SliceStable(out, func(i, j int) bool { return out[i].at.Before(out[j].at) })
		return out
	}
	nAnn := func() int { return len(collect()) }
	settle := func() {
		// wait until no tracker has logged anything for 150 ms (a request that was cancelled after it had been written
		// can still be delivered; it must not be attributed to the next run)
		last, since := nAnn(), time.Now()
		for time.Since(since) < 150*time.Millisecond {
			time.Sleep(10 * time.Millisecond)
			if n := nAnn(); n != last {
				last, since = n, time.Now()
			}
		}
	}

	ses, err := torrent.NewSession(cfg)
	if err != nil {
		return core.Result{Inconcl: "session: " + err.Error()}
	}
	defer ses.Close()
	type runInfo struct {
		from, stopCall, to     time.Time
		leftAtStart            int64 // -1: changing during the run
		leftAtStop             int64
		upAtStop, downAtStop   int64
		upAtStart, downAtStart int64
		completedDuring        bool
	}
	var runs []runInfo
	tStart := time.Now()
	tor, err := ses.AddTorrent(bytes.NewReader(l.Metainfo(F, tiers, nil)), &torrent.AddTorrentOptions{Stopped: c.AddStopped})
	if err != nil {
		return core.Failf("adding a valid torrent failed: %v", err)
	}
	if c.AddStopped {
		time.Sleep(30 * time.Millisecond)
		if n := nAnn(); n != 0 {
			return core.Failf("%d announces were sent for a torrent that was added in stopped state and never started", n)
		}
		tStart = time.Now()
		if err := tor.Start(); err != nil {
			return core.Failf("Start: %v", err)
		}
	}
	port := tor.Port()
	clientAddr := fmt.Sprintf("%s:%d", sess.IP(0), port)
	lab := map[string]bool{}
	var clientIDs [][20]byte
	cur := map[int]bool{}
	for m := range missing {
		cur[m] = true
	}
	waitReady := func() string {
		want := np - len(cur)
		for i := 0; i < 500; i++ {
			st := tor.Stats()
			if (st.Status == torrent.Seeding || st.Status == torrent.Downloading) && int(st.Pieces.Have) == want {
				return ""
			}
			time.Sleep(10 * time.Millisecond)
		}
		st := tor.Stats()
		return fmt.Sprintf("after 5 s the torrent is %v with %d/%d pieces; storage holds %d correct pieces", st.Status, st.Pieces.Have, st.Pieces.Total, want)
	}
	waitFirstAnnounces := func(from time.Time) {
		// every tracker that can be reached sees an announce (UDP silent trackers never get past connect)
		deadline := time.Now().Add(3 * time.Second)
		for time.Now().Before(deadline) {
			seen := map[int]bool{}
			for _, a := range collect() {
				if !a.at.Before(from) {
					seen[a.trk] = true
				}
			}
			all := true
			for i, st := range c.Trackers {
				if st.UDP && st.Mode == "silent" {
					continue
				}
				if !seen[i] {
					all = false
				}
			}
			if all {
				return
			}
			time.Sleep(10 * time.Millisecond)
		}
	}
	for run := 0; run < c.Runs; run++ {
		ri := runInfo{from: tStart, leftAtStart: leftOf(cur)}
		st0 := tor.Stats()
		ri.upAtStart, ri.downAtStart = st0.Bytes.Uploaded, st0.Bytes.Downloaded
		if msg := waitReady(); msg != "" {
			return core.Failf("%s", msg)
		}
		waitFirstAnnounces(tStart)
		if run == 0 {
			if c.Seeder && len(cur) > 0 {
				ln, err := net.Listen("tcp4", sess.IP(1)+":0")
				if err != nil {
					panic(err)
				}
				var sp *speer.Peer
				var smu sync.Mutex
				go func() {
					// the client tries an encrypted handshake first and falls back to plaintext on a new connection
					for {
						conn, err := ln.Accept()
						if err != nil {
							return
						}
						go func() {
							var id [20]byte
							copy(id[:], "-SP0001-seeder000000")
							p, err := speer.Accept(conn, speer.Opts{InfoHash: ih, PeerID: id, Fast: true, Ext: true, Reqq: 250}, 3*time.Second)
							if err != nil {
								return
							}
							smu.Lock()
							sp = p
							smu.Unlock()
							speer.Serve(p, speer.Behaviour{}, F, pl)
						}()
					}
				}()
				_ = tor.AddPeer(ln.Addr().String())
				done := false
				select {
				case <-tor.NotifyComplete():
					done = true
				case <-time.After(10 * time.Second):
				}
				ln.Close()
				smu.Lock()
				if sp != nil {
					clientIDs = append(clientIDs, sp.ClientID)
					sp.Close()
				}
				smu.Unlock()
				if !done {
					st := tor.Stats()
					return core.Result{Inconcl: fmt.Sprintf("download from the scripted seeder did not complete in 10 s (%v, %d/%d)", st.Status, st.Pieces.Have, st.Pieces.Total)}
				}
				ri.completedDuring = true
				ri.leftAtStart = -1
				cur = map[int]bool{}
				lab["completed-during-run"] = true
			}
			if c.LeechBlocks > 0 && len(cur) < np {
				var id [20]byte
				copy(id[:], "-LE0001-leecher00000")
				var p *speer.Peer
				for try := 0; try < 40; try++ {
					p, err = speer.Dial(sess.IP(2), clientAddr, speer.Opts{InfoHash: ih, PeerID: id, Fast: true, Ext: true, Reqq: 250}, 2*time.Second)
					if err == nil || !strings.Contains(err.Error(), "refused") {
						break
					}
					time.Sleep(25 * time.Millisecond)
				}
				if err == nil {
					clientIDs = append(clientIDs, p.ClientID)
					p.Send(refwire.Msg{Kind: "havenone"})
					p.Send(refwire.Msg{Kind: "interested"})
					if _, ok := p.WaitFor(0, 3*time.Second, func(m refwire.Msg) bool { return m.Kind == "unchoke" }); ok {
						var have []int
						for i := 0; i < np; i++ {
							if !cur[i] {
								have = append(have, i)
							}
						}
						got := 0
						for k := 0; k < c.LeechBlocks; k++ {
							pi := have[k%len(have)]
							plen := l.PieceLen(pi)
							nb := (plen + 16383) / 16384
							b := (k / len(have)) % nb * 16384
							ln := min(16384, plen-b)
							from := p.LogLen()
							p.Send(refwire.Msg{Kind: "request", Index: uint32(pi), Begin: uint32(b), Length: uint32(ln)})
							if _, ok := p.WaitFor(from, 3*time.Second, func(m refwire.Msg) bool { return m.Kind == "piece" || m.Kind == "reject" }); ok {
								got++
							}
						}
						if got > 0 {
							lab["uploaded"] = true
						}
					}
					p.Close()
				}
			}
		}
		if c.Periodic {
			time.Sleep(1150 * time.Millisecond)
			lab["periodic-wait"] = true
		}
		// quiesce: no peers, counters stable
		var snap torrent.Stats
		for i := 0; i < 200; i++ {
			a := tor.Stats()
			time.Sleep(15 * time.Millisecond)
			snap = tor.Stats()
			if snap.Peers.Total == 0 && a.Bytes.Uploaded == snap.Bytes.Uploaded && a.Bytes.Downloaded == snap.Bytes.Downloaded {
				break
			}
		}
		ri.upAtStop, ri.downAtStop, ri.leftAtStop = snap.Bytes.Uploaded, snap.Bytes.Downloaded, leftOf(cur)
		ri.stopCall = time.Now()
		if err := tor.Stop(); err != nil {
			return core.Failf("Stop: %v", err)
		}
		stopped := false
		for i := 0; i < 400; i++ {
			if tor.Stats().Status == torrent.Stopped {
				stopped = true
				break
			}
			time.Sleep(10 * time.Millisecond)
		}
		if !stopped {
			return core.Failf("torrent still %v 4 s after Stop (tracker stop timeout is %v)", tor.Stats().Status, cfg.TrackerStopTimeout)
		}
		settle()
		ri.to = time.Now()
		runs = append(runs, ri)
		if run+1 < c.Runs {
			tStart = time.Now()
			if err := tor.Start(); err != nil {
				return core.Failf("Start: %v", err)
			}
		}
	}

	// ---- judge ----
	all := collect()
	if len(all) == 0 {
		reach := false
		for _, st := range c.Trackers {
			if !(st.UDP && st.Mode == "silent") {
				reach = true
			}
		}
		if reach {
			return core.Failf("no tracker received any announce")
		}
	}
	// shape of a plausible "left": total minus a set of whole pieces
	plausible := func(left int64) bool {
		doneBytes := total - left
		if left < 0 || doneBytes < 0 {
			return false
		}
		if doneBytes%int64(pl) == 0 && doneBytes/int64(pl) <= int64(np) {
			return true
		}
		last := int64(l.PieceLen(np - 1))
		return doneBytes >= last && (doneBytes-last)%int64(pl) == 0
	}
	var pid [20]byte
	for k, a := range all {
		what := fmt.Sprintf("announce #%d (tracker %d %s, event %q)", k, a.trk, map[bool]string{true: "udp", false: "http"}[c.Trackers[a.trk].UDP], a.event)
		if a.port == -1 {
			return core.Failf("%s: info_hash or peer_id is not 20 bytes", what)
		}
		if a.ih != ih {
			return core.Failf("%s carries info-hash %x, the torrent's is %x", what, a.ih, ih)
		}
		if a.port != port {
			return core.Failf("%s carries port %d, the torrent listens on %d", what, a.port, port)
		}
		if k == 0 {
			pid = a.pid
		} else if a.pid != pid {
			return core.Failf("%s carries peer id %q, an earlier announce of the same torrent carried %q", what, a.pid, pid)
		}
		// which run
		ri := -1
		for r := range runs {
			// a request the client wrote just before it was cancelled may be read by the tracker late: everything up
			// to the next Start belongs to the run before it
			if !a.at.Before(runs[r].from) {
				ri = r
			}
		}
		if ri < 0 {
			return core.Failf("%s arrived outside every run (%v after the torrent was added)", what, a.at.Sub(runs[0].from))
		}
		r := runs[ri]
		if !plausible(a.left) {
			return core.Failf("%s: left=%d is not the torrent's length (%d) minus a set of whole pieces (piece length %d, last piece %d)", what, a.left, total, pl, l.PieceLen(np-1))
		}
		if a.up < r.upAtStart || a.up > r.upAtStop || a.down < r.downAtStart || a.down > r.downAtStop {
			return core.Failf("%s: uploaded=%d downloaded=%d outside what the torrent's counters were during the run (uploaded %d..%d, downloaded %d..%d)", what, a.up, a.down, r.upAtStart, r.upAtStop, r.downAtStart, r.downAtStop)
		}
		switch {
		case a.event == "stopped":
			if a.left != r.leftAtStop || a.up != r.upAtStop || a.down != r.downAtStop {
				return core.Failf("%s: left/uploaded/downloaded %d/%d/%d, the torrent at Stop (quiescent, no peers): %d/%d/%d", what, a.left, a.up, a.down, r.leftAtStop, r.upAtStop, r.downAtStop)
			}
		case r.leftAtStart >= 0:
			if a.left != r.leftAtStart {
				return core.Failf("%s: left=%d, pieces missing on storage add up to %d (total %d, piece length %d, missing %v)", what, a.left, r.leftAtStart, total, pl, c.Missing)
			}
		default:
			if a.left > initialLeft {
				return core.Failf("%s: left=%d exceeds what was missing when the torrent was added (%d)", what, a.left, initialLeft)
			}
			if a.event == "completed" && a.left != 0 {
				return core.Failf("%s: a completed event with left=%d", what, a.left)
			}
		}
	}
	for _, id := range clientIDs {
		if len(all) > 0 && id != pid {
			return core.Failf("the client presented peer id %q to a peer and %q to the trackers", id, pid)
		}
	}
	if len(clientIDs) > 0 && len(all) > 0 {
		lab["peer-id-compared-with-handshake"] = true
	}
	// event discipline per tracker and run
	for ti := range c.Trackers {
		for r, rinfo := range runs {
			var seq []ann
			for _, a := range all {
				if a.trk == ti && !a.at.Before(rinfo.from) && (r+1 == len(runs) || a.at.Before(runs[r+1].from)) {
					seq = append(seq, a)
				}
			}
			if len(seq) == 0 {
				continue
			}
			if seq[0].event != "started" {
				return core.Failf("tracker %d, run %d: the first announce of the run has event %q, not started (events: %v)", ti, r, seq[0].event, events(seq))
			}
			completed := 0
			for k, a := range seq {
				switch a.event {
				case "completed":
					completed++
					if !rinfo.completedDuring {
						return core.Failf("tracker %d, run %d: a completed event although the download did not finish during this run (events: %v)", ti, r, events(seq))
					}
				case "stopped":
					// not asserted: stopped being the last event the tracker sees. The announce that Stop cancels may already
					// be on the wire and the tracker may read it after the stopped request (seen under load: started, stopped, completed).
					if a.at.Before(rinfo.stopCall) {
						return core.Failf("tracker %d, run %d: a stopped event before Stop was called", ti, r)
					}
					mu.Lock()
					ok := false
					for _, at := range accepted[ti] {
						if at.Before(a.at) {
							ok = true
						}
					}
					mu.Unlock()
					if !ok {
						return core.Failf("tracker %d (%s), run %d: received a stopped event although it never accepted an announce (events: %v)", ti, c.Trackers[ti].Mode, r, events(seq))
					}
					lab["stopped-event"] = true
				case "started":
					if k != 0 {
						lab["started-repeated"] = true // not asserted: the property speaks about the first announce only
					}
				}
			}
			if completed > 1 {
				return core.Failf("tracker %d, run %d: %d completed events (events: %v)", ti, r, completed, events(seq))
			}
			if completed == 1 {
				lab["completed-event"] = true
			}
		}
	}
	res := core.Result{Nontrivial: len(all) > 0}
	if total%int64(pl) == 0 {
		lab["exact-multiple"] = true
		if !cur[np-1] {
			lab["exact-multiple-with-last-piece"] = true
		}
	}
	if len(runs) > 1 {
		lab["two-runs"] = true
	}
	for _, st := range c.Trackers {
		lab[map[bool]string{true: "udp-", false: "http-"}[st.UDP]+st.Mode] = true
	}
	for k := range lab {
		res.Labels = append(res.Labels, k)
	}
	sort.Strings(res.Labels)
	res.Counts = map[string]int{"announces-judged": len(all)}
	return res
}

func events(seq []ann) []string {
	var out []string
	for _, a := range seq {
		out = append(out, a.event)
	}
	return out
}

func TestSession(t *testing.T) { core.RunChild(t, "c15.session", genSess, runSess, 90*time.Second) }
