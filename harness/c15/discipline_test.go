package c15

import (
	"context"
	"errors"
	"fmt"
	"net"
	"sync"
	"testing"
	"time"

	"github.com/cenkalti/rain/v2/internal/announcer"
	"github.com/cenkalti/rain/v2/internal/logger"
	"github.com/cenkalti/rain/v2/internal/tracker"
	"github.com/cenkalti/rain/v2/verifharness/core"
	"pgregory.net/rapid"
)

// Script drives one PeriodicalAnnouncer run against a stub tracker.
type Script struct {
	Replies       []Reply `json:"replies"`        // reply to the n-th request (last one repeats)
	MinIntervalMs int     `json:"min_ms"`         // client's minimum announce interval
	CompleteAtMs  int     `json:"complete_at_ms"` // -1: completed before the run started; 0: never; >0: during the run
	NeedPeersAtMs []int   `json:"need_peers_at_ms"`
	NeedPeersOff  []int   `json:"need_peers_off_ms"`
	RunMs         int     `json:"run_ms"`
}
type Reply struct {
	Kind       string `json:"kind"` // ok | fail | trackererr
	IntervalMs int    `json:"interval_ms"`
	MinMs      int    `json:"min_interval_ms"`
	RetryMs    int    `json:"retry_ms"`
	DelayMs    int    `json:"delay_ms"`
	// ConnectMs: how long the request takes to reach the tracker. An announce whose context is cancelled during that
	// time was never seen by the tracker (a real client would have aborted the dial / the DNS lookup).
	ConnectMs int `json:"connect_ms"`
}
type DiscCase struct {
	Scripts []Script `json:"scripts"`
}

func genScript(t *rapid.T) Script {
	s := Script{MinIntervalMs: rapid.SampledFrom([]int{300, 400, 500}).Draw(t, "min"), RunMs: 1800}
	n := rapid.IntRange(1, 5).Draw(t, "nreplies")
	for i := 0; i < n; i++ {
		r := Reply{Kind: rapid.SampledFrom([]string{"ok", "ok", "ok", "ok", "fail", "trackererr"}).Draw(t, "kind")}
		r.IntervalMs = rapid.SampledFrom([]int{0, 0, -1, -1000, -2147483648000, 150, 200, 350, 600, 2147483647000}).Draw(t, "interval")
		r.MinMs = rapid.SampledFrom([]int{0, 0, 0, -1, -5000, 120, 250, 700}).Draw(t, "minint")
		r.RetryMs = rapid.SampledFrom([]int{0, 200, 400}).Draw(t, "retry")
		r.DelayMs = rapid.SampledFrom([]int{0, 0, 0, 20, 100}).Draw(t, "delay")
		r.ConnectMs = rapid.SampledFrom([]int{0, 0, 0, 10, 60}).Draw(t, "connect")
		s.Replies = append(s.Replies, r)
	}
	switch rapid.IntRange(0, 3).Draw(t, "complete") {
	case 0:
		s.CompleteAtMs = -1
	case 1:
		s.CompleteAtMs = 0
	default:
		if rapid.Bool().Draw(t, "completeEarly") {
			s.CompleteAtMs = rapid.IntRange(1, 80).Draw(t, "completeAt") // while the started announce is still in flight
		} else {
			s.CompleteAtMs = rapid.IntRange(1, 1500).Draw(t, "completeAt")
		}
	}
	for i := rapid.IntRange(0, 3).Draw(t, "nneed"); i > 0; i-- {
		s.NeedPeersAtMs = append(s.NeedPeersAtMs, rapid.IntRange(0, 1600).Draw(t, "needAt"))
	}
	for i := rapid.IntRange(0, 2).Draw(t, "nneedoff"); i > 0; i-- {
		s.NeedPeersOff = append(s.NeedPeersOff, rapid.IntRange(0, 1600).Draw(t, "needOff"))
	}
	return s
}

func genDisc(t *rapid.T) DiscCase {
	var c DiscCase
	for i := 0; i < 6; i++ {
		c.Scripts = append(c.Scripts, genScript(t))
	}
	return c
}

type obs struct {
	issued  time.Time // when the client called Announce
	at      time.Time
	event   tracker.Event
	replied time.Time
	ok      bool
	reply   Reply
}

type stubTr struct {
	mu     sync.Mutex
	script *Script
	log    []*obs
	issued int
}

func (s *stubTr) URL() string { return "stub://x" }
func (s *stubTr) Announce(ctx context.Context, req tracker.AnnounceRequest) (*tracker.AnnounceResponse, error) {
	s.mu.Lock()
	r := s.script.Replies[min(s.issued, len(s.script.Replies)-1)]
	s.issued++
	s.mu.Unlock()
	issuedAt := time.Now()
	if r.ConnectMs > 0 {
		select {
		case <-time.After(time.Duration(r.ConnectMs) * time.Millisecond):
		case <-ctx.Done():
			return nil, ctx.Err() // never reached the tracker
		}
	}
	s.mu.Lock()
	o := &obs{at: time.Now(), issued: issuedAt, event: req.Event, reply: r}
	s.log = append(s.log, o)
	s.mu.Unlock()
	if r.DelayMs > 0 {
		select {
		case <-time.After(time.Duration(r.DelayMs) * time.Millisecond):
		case <-ctx.Done():
			return nil, ctx.Err()
		}
	}
	s.mu.Lock()
	o.replied = time.Now()
	o.ok = r.Kind == "ok"
	s.mu.Unlock()
	switch r.Kind {
	case "ok":
		return &tracker.AnnounceResponse{Interval: time.Duration(r.IntervalMs) * time.Millisecond, MinInterval: time.Duration(r.MinMs) * time.Millisecond}, nil
	case "trackererr":
		return nil, &tracker.Error{FailureReason: "nope", RetryIn: time.Duration(r.RetryMs) * time.Millisecond}
	}
	return nil, errors.New("stub: connection refused")
}

const tolerance = 60 * time.Millisecond

func runScript(s *Script) string {
	st := &stubTr{script: s}
	completedC := make(chan struct{})
	if s.CompleteAtMs == -1 {
		close(completedC)
	}
	newPeers := make(chan []*net.TCPAddr)
	stopDrain := make(chan struct{})
	go func() {
		for {
			select {
			case <-newPeers:
			case <-stopDrain:
				return
			}
		}
	}()
	defer close(stopDrain)
	a := announcer.NewPeriodicalAnnouncer(st, 50, time.Duration(s.MinIntervalMs)*time.Millisecond, func() tracker.Torrent { return tracker.Torrent{} }, completedC, newPeers, logger.New("a"))
	start := time.Now()
	go a.Run()
	type ev struct {
		at int
		f  func()
	}
	var evs []ev
	var completedAt time.Time
	if s.CompleteAtMs > 0 {
		evs = append(evs, ev{s.CompleteAtMs, func() { completedAt = time.Now(); close(completedC) }})
	}
	var needTimes []time.Time
	for _, at := range s.NeedPeersAtMs {
		evs = append(evs, ev{at, func() { needTimes = append(needTimes, time.Now()); a.NeedMorePeers(true) }})
	}
	for _, at := range s.NeedPeersOff {
		evs = append(evs, ev{at, func() { needTimes = append(needTimes, time.Now()); a.NeedMorePeers(false) }})
	}
	for i := 1; i < len(evs); i++ {
		for j := i; j > 0 && evs[j].at < evs[j-1].at; j-- {
			evs[j], evs[j-1] = evs[j-1], evs[j]
		}
	}
	for _, e := range evs {
		if d := time.Until(start.Add(time.Duration(e.at) * time.Millisecond)); d > 0 {
			time.Sleep(d)
		}
		e.f()
	}
	if d := time.Until(start.Add(time.Duration(s.RunMs) * time.Millisecond)); d > 0 {
		time.Sleep(d)
	}
	a.Close()
	st.mu.Lock()
	log := append([]*obs(nil), st.log...)
	st.mu.Unlock()
	if len(log) == 0 {
		return "no announce at all during the run"
	}
	if len(log) > 60 {
		return fmt.Sprintf("%d announces in %d ms (announce storm)", len(log), s.RunMs)
	}
	if log[0].event != tracker.EventStarted {
		return fmt.Sprintf("first announce of the run has event %v, want started", log[0].event)
	}
	nCompleted := 0
	for i, o := range log {
		if o.event == tracker.EventStarted && i > 0 {
			return fmt.Sprintf("announce %d says started again", i)
		}
		if o.event == tracker.EventCompleted {
			nCompleted++
			if s.CompleteAtMs <= 0 {
				return fmt.Sprintf("announce %d says completed although the download did not finish during this run (complete_at=%d)", i, s.CompleteAtMs)
			}
			if o.at.Before(completedAt) {
				return "completed announced before completion"
			}
		}
		if o.event == tracker.EventStopped {
			return "periodic announcer sent stopped"
		}
	}
	if nCompleted > 1 {
		return fmt.Sprintf("completed announced %d times", nCompleted)
	}
	// spacing: consecutive requests, the earlier answered successfully, the later a plain re-announce (no event)
	minSeen := time.Duration(s.MinIntervalMs) * time.Millisecond
	for i := 0; i+1 < len(log); i++ {
		o, nx := log[i], log[i+1]
		if o.ok {
			if o.reply.IntervalMs > 0 {
				minSeen = min(minSeen, time.Duration(o.reply.IntervalMs)*time.Millisecond)
			}
			if o.reply.MinMs > 0 {
				minSeen = min(minSeen, time.Duration(o.reply.MinMs)*time.Millisecond)
			}
		}
		if !o.ok || o.replied.IsZero() || nx.event != tracker.EventNone {
			continue
		}
		if gap := nx.issued.Sub(o.issued); gap < minSeen-tolerance { // the client's clock: when it issued the requests
			return fmt.Sprintf("announces %d and %d are %v apart with no event between them; tracker replied interval=%dms min=%dms, client minimum %dms (smallest positive value so far %v)",
				i, i+1, gap.Round(time.Millisecond), o.reply.IntervalMs, o.reply.MinMs, s.MinIntervalMs, minSeen)
		}
	}
	return ""
}

func runDisc(c DiscCase) core.Result {
	errs := make([]string, len(c.Scripts))
	var wg sync.WaitGroup
	for i := range c.Scripts {
		wg.Add(1)
		go func(i int) {
			defer wg.Done()
			errs[i] = runScript(&c.Scripts[i])
		}(i)
	}
	wg.Wait()
	res := core.Result{Nontrivial: true}
	for i, e := range errs {
		if e != "" {
			return core.Failf("script %d: %s", i, e)
		}
	}
	for _, s := range c.Scripts {
		for _, r := range s.Replies {
			if r.Kind == "ok" && r.IntervalMs <= 0 {
				res.Labels = append(res.Labels, "nonpositive-interval")
			}
		}
		if s.CompleteAtMs == -1 {
			res.Labels = append(res.Labels, "complete-before-run")
		}
	}
	return res
}

func TestDiscipline(t *testing.T) { core.Run(t, "c15.discipline", genDisc, runDisc) }
