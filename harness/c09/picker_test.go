package c09

import (
	"fmt"
	"io"
	"net/http"
	"os"
	"strconv"
	"strings"
	"sync"
	"testing"
	"time"

	"github.com/cenkalti/rain/v2/internal/bufferpool"
	"github.com/cenkalti/rain/v2/internal/urldownloader"
	"github.com/cenkalti/rain/v2/internal/webseedsource"

	"github.com/cenkalti/rain/v2/internal/allocator"
	"github.com/cenkalti/rain/v2/internal/bitfield"
	"github.com/cenkalti/rain/v2/internal/logger"
	"github.com/cenkalti/rain/v2/internal/metainfo"
	"github.com/cenkalti/rain/v2/internal/peer"
	"github.com/cenkalti/rain/v2/internal/piece"
	"github.com/cenkalti/rain/v2/internal/piecepicker"
	"github.com/cenkalti/rain/v2/verifharness/core"
	"github.com/cenkalti/rain/v2/verifharness/model"
	"github.com/cenkalti/rain/v2/verifharness/sstore"
	"pgregory.net/rapid"
)

func TestMain(m *testing.M) {
	logger.Disable()
	os.Exit(m.Run())
}

type POp struct {
	Op string `json:"op"`
	P  int    `json:"p,omitempty"`
	I  int    `json:"i,omitempty"`
	OK bool   `json:"ok,omitempty"`
}

type PickCase struct {
	L          model.Layout `json:"layout"`
	NPeers     int          `json:"npeers"`
	MaxDup     int          `json:"endgame_max"`
	Sequential bool         `json:"sequential"`
	NWeb       int          `json:"web_seeds"`
	Ops        []POp        `json:"ops"`
}

// gate is the body of a fake web-seed response: it releases bytes only as far as the harness has allowed.
type gate struct {
	mu      sync.Mutex
	cond    *sync.Cond
	allowed int64
	closed  bool
}

func newGate() *gate          { g := &gate{}; g.cond = sync.NewCond(&g.mu); return g }
func (g *gate) allow(n int64) { g.mu.Lock(); g.allowed += n; g.cond.Broadcast(); g.mu.Unlock() }
func (g *gate) close()        { g.mu.Lock(); g.closed = true; g.cond.Broadcast(); g.mu.Unlock() }

type gatedBody struct {
	g    *gate
	data []byte
	ctx  interface{ Done() <-chan struct{} }
}

func (b *gatedBody) Read(p []byte) (int, error) {
	if len(b.data) == 0 {
		return 0, io.EOF
	}
	b.g.mu.Lock()
	for b.g.allowed == 0 && !b.g.closed {
		select {
		case <-b.ctx.Done():
			b.g.mu.Unlock()
			return 0, io.ErrClosedPipe
		default:
		}
		// wake up periodically to notice a cancelled request
		t := time.AfterFunc(5*time.Millisecond, func() { b.g.mu.Lock(); b.g.cond.Broadcast(); b.g.mu.Unlock() })
		b.g.cond.Wait()
		t.Stop()
	}
	if b.g.closed {
		b.g.mu.Unlock()
		return 0, io.ErrClosedPipe
	}
	n := int64(min(len(p), len(b.data)))
	n = min(n, b.g.allowed)
	b.g.allowed -= n
	b.g.mu.Unlock()
	copy(p, b.data[:n])
	b.data = b.data[n:]
	return int(n), nil
}
func (b *gatedBody) Close() error { return nil }

// fakeWeb serves Range requests over the layout's files, one gate per source URL.
type fakeWeb struct {
	files map[string][]byte
	gates map[string]*gate
}

func (f *fakeWeb) RoundTrip(r *http.Request) (*http.Response, error) {
	host := r.URL.Host
	g := f.gates[host]
	data, ok := f.files[r.URL.Path]
	if !ok || g == nil {
		return &http.Response{StatusCode: 404, Body: io.NopCloser(strings.NewReader("")), Header: http.Header{}, Request: r}, nil
	}
	var a, b int64
	fmt.Sscanf(r.Header.Get("Range"), "bytes=%d-%d", &a, &b)
	if b >= int64(len(data)) || a > b {
		return &http.Response{StatusCode: 416, Body: io.NopCloser(strings.NewReader("")), Header: http.Header{}, Request: r}, nil
	}
	return &http.Response{StatusCode: 206, Header: http.Header{"Content-Length": {strconv.FormatInt(b-a+1, 10)}}, ContentLength: b - a + 1,
		Body: &gatedBody{g: g, data: data[a : b+1], ctx: r.Context()}, Request: r}, nil
}

var pickOps = []string{"have", "have", "haveall", "allowedfast", "unchoke", "unchoke", "choke", "snub", "pick", "pick", "pickall", "blocksdone", "blocksdone", "writedone", "writedone", "writefail", "lowest-hashfail", "disconnect", "connect",
	"ws-pick", "ws-pick", "ws-progress", "ws-progress", "ws-progress", "ws-error"}

func genPick(t *rapid.T) PickCase {
	c := PickCase{L: model.GenLayout(t, model.LayoutOpts{MaxTotal: 24 * 16384, MaxPieces: 24, MaxFiles: 4, BigPieces: true, NoPadding: true})}
	if rapid.IntRange(0, 2).Draw(t, "manyPieces") == 0 {
		// web-seed ranges span 5% of the pieces: only torrents of 40+ pieces have ranges longer than one piece (needed for steals)
		np := rapid.IntRange(40, 90).Draw(t, "np")
		nf := rapid.IntRange(1, 3).Draw(t, "nf")
		c.L = model.Layout{Name: "t", PieceLength: 16384, Seed: rapid.Uint64Range(1, 1<<30).Draw(t, "seed2")}
		rem := int64(np) * 16384
		for i := 0; i < nf; i++ {
			ln := rem
			if i < nf-1 {
				ln = rapid.Int64Range(1, rem-int64(nf-i)).Draw(t, "flen")
			}
			c.L.Files = append(c.L.Files, model.FileSpec{Path: []string{fmt.Sprintf("f%d", i)}, Length: ln})
			rem -= ln
		}
	}
	c.NPeers = rapid.IntRange(1, 5).Draw(t, "npeers")
	c.MaxDup = rapid.IntRange(1, 4).Draw(t, "maxdup")
	c.Sequential = rapid.Bool().Draw(t, "seq")
	c.NWeb = rapid.SampledFrom([]int{0, 0, 1, 2, 3}).Draw(t, "nweb")
	if c.Sequential && c.NPeers >= 2 && rapid.Bool().Draw(t, "seqPrelude") {
		// sequential mode with several busy peers and no web seed: the shape in which the order of requests after a
		// failed hash check is observable (every peer has everything and is unchoking, everybody downloads, then the
		// lowest piece in progress fails its hash check - twice)
		c.NWeb = 0
		for p := 0; p < c.NPeers; p++ {
			c.Ops = append(c.Ops, POp{Op: "haveall", P: p}, POp{Op: "unchoke", P: p})
		}
		c.Ops = append(c.Ops, POp{Op: "pickall"}, POp{Op: "lowest-hashfail"}, POp{Op: "connect", P: 0}, POp{Op: "haveall", P: 0}, POp{Op: "unchoke", P: 0}, POp{Op: "pickall"}, POp{Op: "lowest-hashfail"})
	}
	n := rapid.IntRange(5, 60).Draw(t, "nops")
	for i := 0; i < n; i++ {
		c.Ops = append(c.Ops, POp{Op: rapid.SampledFrom(pickOps).Draw(t, "op"), P: rapid.IntRange(0, c.NPeers-1).Draw(t, "p"), I: rapid.IntRange(0, 1000).Draw(t, "i")})
	}
	return c
}

type dl struct {
	piece       int
	allowedFast bool
	// stalled: the peer was snubbed, or choked us, while it had this piece (config: "snubbed and choked peers don't
	// count" against the end-game limit). Cleared by unchoke (choked) and by the end of the download.
	snubbed, choked bool
}

func runPick(c PickCase) core.Result {
	l := &c.L
	F := l.Flat()
	info, err := metainfo.NewInfo(l.InfoBytes(F), true, true)
	if err != nil {
		return core.Failf("layout rejected: %v", err)
	}
	mem := sstore.NewMem()
	a := allocator.New()
	progressC := make(chan allocator.Progress)
	go func() {
		for range progressC {
		}
	}()
	a.Run(info, mem, progressC, make(chan *allocator.Allocator, 1))
	close(progressC)
	pieces := piece.NewPieces(info, a.Files)
	np := len(pieces)
	var urls []string
	web := &fakeWeb{files: map[string][]byte{}, gates: map[string]*gate{}}
	offs := l.FileOffsets()
	for i, f := range l.Files {
		if f.Pad == 0 {
			web.files["/"+l.ExpectedPath(i)] = F[offs[i] : offs[i]+f.Length]
		}
	}
	for w := 0; w < c.NWeb; w++ {
		host := fmt.Sprintf("ws%d", w)
		web.gates[host] = newGate()
		u := "http://" + host + "/"
		if l.Single {
			u += l.Name
		}
		urls = append(urls, u)
	}
	sources := webseedsource.NewList(urls)
	client := &http.Client{Transport: web}
	pool := bufferpool.New(int(l.PieceLength))
	resultC := make(chan *urldownloader.PieceResult)
	defer func() {
		for _, g := range web.gates {
			g.close()
		}
		for _, src := range sources {
			if src.Downloader != nil {
				go func(d *urldownloader.URLDownloader) {
					for {
						select {
						case r := <-resultC:
							if r.Error == nil {
								r.Buffer.Release()
							}
						case <-time.After(200 * time.Millisecond):
							return
						}
					}
				}(src.Downloader)
				src.Downloader.Close()
			}
		}
	}()
	pk := piecepicker.New(pieces, c.MaxDup, sources, c.Sequential)
	// shadow model
	peers := make([]*peer.Peer, c.NPeers)
	connected := make([]bool, c.NPeers)
	have := make([][]bool, c.NPeers)
	fast := make([][]bool, c.NPeers)
	downloads := map[int]*dl{}
	newPeer := func(p int) {
		peers[p] = &peer.Peer{Bitfield: bitfield.New(uint32(np)), PeerChoking: true}
		connected[p] = true
		have[p] = make([]bool, np)
		fast[p] = make([]bool, np)
	}
	for p := range peers {
		newPeer(p)
	}
	writing := -1
	writingSrc := -1
	lab := map[string]bool{}
	picks := 0
	fail := ""
	requesters := func(x int) (n int, list []int) {
		for p, d := range downloads {
			if d.piece == x {
				n++
				list = append(list, p)
			}
		}
		return
	}
	// edge pieces of files (first/last piece of each file) for the sequential rule, computed from the layout
	pick := func(p int) {
		if !connected[p] || peers[p].Downloading {
			return
		}
		pe := peers[p]
		wasRequested := map[int]int{}
		wasRunning := map[int]int{}
		for x := 0; x < np; x++ {
			wasRequested[x], _ = requesters(x)
		}
		for _, d := range downloads {
			if !d.snubbed && !d.choked {
				wasRunning[d.piece]++
			}
		}
		wsActive := false
		for _, src := range sources {
			if src.Downloader != nil {
				wsActive = true // while a web seed downloads, peers fill gaps from the end (BEP 19): index order is not expected
			}
		}
		pi, af := pk.PickFor(pe)
		if pi == nil {
			return
		}
		picks++
		x := int(pi.Index)
		if _, dup := downloads[p]; dup {
			fail = fmt.Sprintf("peer %d was given piece %d while it is already downloading piece %d", p, x, downloads[p].piece)
			return
		}
		if pieces[x].Done || pieces[x].Writing {
			fail = fmt.Sprintf("piece %d picked for peer %d although it is done=%v writing=%v", x, p, pieces[x].Done, pieces[x].Writing)
			return
		}
		if !have[p][x] {
			fail = fmt.Sprintf("piece %d picked for peer %d, which does not have it", x, p)
			return
		}
		if pe.PeerChoking && !fast[p][x] {
			fail = fmt.Sprintf("piece %d picked for peer %d, which is choking us and has not allowed it as fast", x, p)
			return
		}
		if af && !fast[p][x] {
			fail = fmt.Sprintf("piece %d picked for peer %d as allowed-fast, but the peer never allowed it", x, p)
			return
		}
		// simultaneous downloads of one piece: downloads whose peer is snubbed or choking do not count
		if wasRunning[x]+1 > c.MaxDup {
			fail = fmt.Sprintf("piece %d is now downloaded from %d peers that are neither snubbed nor choking (%d in all), the end-game limit is %d", x, wasRunning[x]+1, wasRequested[x]+1, c.MaxDup)
			return
		}
		if wasRequested[x] > wasRunning[x] {
			lab["took-over-stalled-piece"] = true
		}
		if wasRequested[x] > 0 {
			lab["duplicate-download"] = true
		}
		// sequential rule
		if c.Sequential && !pe.PeerChoking && !af && !wsActive {
			lowest := -1
			edgePickable, fastPickable := false, false
			for y := 0; y < np; y++ {
				if pieces[y].Done || pieces[y].Writing || wasRequested[y] > 0 || !have[p][y] {
					continue
				}
				if lowest == -1 {
					lowest = y
				}
				if fast[p][y] {
					fastPickable = true
				}
			}
			_ = edgePickable
			if lowest != -1 && !fastPickable && wasRequested[x] == 0 && x != lowest && !isEdge(l, x) {
				fail = fmt.Sprintf("sequential mode: piece %d picked for unchoking peer %d although piece %d is lower, unrequested and held by the peer", x, p, lowest)
				return
			}
			lab["sequential-pick"] = true
		}
		pe.Downloading = true
		downloads[p] = &dl{piece: x, allowedFast: af}
	}
	closeDownload := func(p int) {
		d, ok := downloads[p]
		if !ok {
			return
		}
		delete(downloads, p)
		pk.HandleCancelDownload(peers[p], uint32(d.piece))
		peers[p].Downloading = false
	}
	pickAll := func() {
		for p := range peers {
			if fail == "" {
				pick(p)
			}
		}
	}
	disconnect := func(p int) {
		if !connected[p] {
			return
		}
		closeDownload(p)
		pk.HandleDisconnect(peers[p])
		connected[p] = false
		for i := range have[p] {
			have[p][i] = false
		}
		pickAll()
	}
	// doBlocksDone: the peer delivered every block of its piece: the piece goes to the writer (one write at a time)
	doBlocksDone := func(p int) {
		d, ok := downloads[p]
		if !ok || writing != -1 || pieces[d.piece].Writing {
			return
		}
		x := d.piece
		closeDownload(p)
		pieces[x].Writing = true
		writing, writingSrc = x, p
		pick(p)
	}
	doWriteEnd := func(failed bool) {
		if writing == -1 {
			return
		}
		x := writing
		pieces[x].Writing = false
		writing = -1
		if failed {
			lab["hash-fail"] = true
			if writingSrc >= 0 {
				disconnect(writingSrc) // the source is closed and banned
			}
			pickAll()
			return
		}
		pieces[x].Done = true
		_, list := requesters(x)
		for _, q := range list {
			closeDownload(q)
			pick(q)
		}
	}
	multifile := len(info.Files) > 1
	var wsPickSrc func(src *webseedsource.WebseedSource)
	wsPickSrc = func(src *webseedsource.WebseedSource) {
		if src.Downloader != nil || src.Disabled {
			return
		}
		sp := pk.PickWebseed(src)
		if sp == nil {
			return
		}
		if sp.Begin >= sp.End || int(sp.End) > np {
			fail = fmt.Sprintf("web seed range [%d,%d) is empty or outside the torrent", sp.Begin, sp.End)
			return
		}
		for x := sp.Begin; x < sp.End; x++ {
			if pieces[x].Done || pieces[x].Writing {
				fail = fmt.Sprintf("web seed range [%d,%d) contains piece %d, which is done or being written", sp.Begin, sp.End, x)
				return
			}
		}
		ud := urldownloader.New(src.URL, sp.Begin, sp.End, nil)
		src.Downloader = ud
		go ud.Run(client, pieces, multifile, resultC, pool, 5*time.Second)
		lab["ws-range"] = true
	}
	wsPick := func(i int) { wsPickSrc(sources[i]) }
	for oi, op := range c.Ops {
		p := op.P
		i := op.I % np
		switch op.Op {
		case "connect":
			if !connected[p] {
				newPeer(p)
			}
		case "have":
			if connected[p] && !have[p][i] {
				pk.HandleHave(peers[p], uint32(i))
				have[p][i] = true
			}
		case "haveall":
			if connected[p] {
				for x := 0; x < np; x++ {
					if !have[p][x] {
						pk.HandleHave(peers[p], uint32(x))
						have[p][x] = true
					}
				}
			}
		case "allowedfast":
			if connected[p] {
				pk.HandleAllowedFast(peers[p], uint32(i))
				fast[p][i] = true
			}
		case "unchoke":
			if connected[p] && peers[p].PeerChoking {
				peers[p].PeerChoking = false
				if d, ok := downloads[p]; ok && !d.allowedFast {
					pk.HandleUnchoke(peers[p], uint32(d.piece))
					d.choked = false
				}
				lab["unchoke"] = true
			}
		case "choke":
			if connected[p] && !peers[p].PeerChoking {
				peers[p].PeerChoking = true
				if d, ok := downloads[p]; ok && !d.allowedFast {
					pk.HandleChoke(peers[p], uint32(d.piece))
					d.choked, d.snubbed = true, false
					lab["choke-during-download"] = true
					pickAll()
				}
			}
		case "snub":
			if d, ok := downloads[p]; ok && connected[p] && !peers[p].PeerChoking {
				peers[p].Snubbed = true
				pk.HandleSnubbed(peers[p], uint32(d.piece))
				d.snubbed = true
				lab["snub"] = true
				pickAll()
			}
		case "pick":
			pick(p)
		case "pickall":
			pickAll()
		case "blocksdone":
			doBlocksDone(p)
		case "writedone", "writefail":
			doWriteEnd(op.Op == "writefail")
		case "lowest-hashfail":
			// the lowest-indexed piece in progress goes to the writer, the other peers pick while it is being written,
			// then it fails its hash check and everybody picks again
			low, lp := -1, -1
			for q, d := range downloads {
				if low == -1 || d.piece < low {
					low, lp = d.piece, q
				}
			}
			if lp >= 0 && writing == -1 && !pieces[low].Writing {
				doBlocksDone(lp)
				pickAll()
				doWriteEnd(true)
				lab["lowest-hashfail"] = true
				// one of the other peers completes its piece and picks again: the failed piece is eligible once more
				for q := range peers {
					if _, busy := downloads[q]; busy && fail == "" {
						doBlocksDone(q)
						doWriteEnd(false)
						break
					}
				}
			}
		case "disconnect":
			if connected[p] {
				lab["disconnect"] = true
			}
			disconnect(p)
		case "ws-pick":
			if len(sources) > 0 {
				wsPick(op.P % len(sources))
			}
		case "ws-error":
			if len(sources) > 0 {
				src := sources[op.P%len(sources)]
				if src.Downloader != nil {
					pk.CloseWebseedDownloader(src) // Close interrupts a pending hand-over of a result
					src.Disabled = true
					lab["ws-error"] = true
					pickAll()
				}
			}
		case "ws-progress":
			if len(sources) == 0 || writing != -1 {
				continue // results are not taken while a piece is being written
			}
			src := sources[op.P%len(sources)]
			if src.Downloader == nil {
				continue
			}
			g := web.gates[fmt.Sprintf("ws%d", op.P%len(sources))]
			var r *urldownloader.PieceResult
			for tries := 0; tries < 4000 && r == nil; tries++ {
				g.allow(4096)
				select {
				case r = <-resultC:
				case <-time.After(2 * time.Millisecond):
				}
			}
			if r == nil {
				fail = fmt.Sprintf("web seed downloader [%d,%d) at piece %d produced no piece although its server released data", src.Downloader.Begin, src.Downloader.End, src.Downloader.ReadCurrent())
				break
			}
			if r.Error != nil {
				fail = fmt.Sprintf("web seed downloader failed against an honest server: %v", r.Error)
				break
			}
			if r.Downloader != src.Downloader {
				// a result of another source's downloader that was in flight: handle it for its own source
				for _, s2 := range sources {
					if s2.Downloader == r.Downloader {
						src = s2
					}
				}
			}
			x := int(r.Index)
			lab["ws-piece"] = true
			if pieces[x].Done {
				r.Buffer.Release()
				if r.Done && src.Downloader == r.Downloader {
					pk.CloseWebseedDownloader(src)
					wsPickSrc(src)
				}
				break
			}
			if pieces[x].Writing {
				fail = fmt.Sprintf("web seed delivered piece %d while it is being written", x)
				break
			}
			if n, _ := requesters(x); n > 0 {
				lab["ws-piece-also-requested-from-peer"] = true
			}
			r.Buffer.Release()
			pieces[x].Writing = true
			writing, writingSrc = x, -1
			if r.Done && src.Downloader == r.Downloader {
				pk.CloseWebseedDownloader(src)
				wsPickSrc(src)
			}
		}
		// web-seed ranges never overlap and agree with the per-piece owner
		owner := make([]*webseedsource.WebseedSource, np)
		for _, src := range sources {
			if src.Downloader == nil {
				continue
			}
			for x := src.Downloader.ReadCurrent(); x < src.Downloader.End; x++ {
				if int(x) >= np {
					fail = fmt.Sprintf("web seed range [%d,%d) of %s exceeds the torrent", src.Downloader.ReadCurrent(), src.Downloader.End, src.URL)
					break
				}
				if owner[x] != nil {
					fail = fmt.Sprintf("piece %d is in the ranges of two web seeds (%s and %s)", x, owner[x].URL, src.URL)
					break
				}
				owner[x] = src
			}
		}
		for x := 0; x < np && fail == ""; x++ {
			if rs := pk.RequestedWebseedSource(uint32(x)); rs != nil && owner[x] != rs && !(rs.Downloader != nil && uint32(x) < rs.Downloader.ReadCurrent() && uint32(x) >= rs.Downloader.Begin) {
				fail = fmt.Sprintf("piece %d is marked for web seed %s, whose range does not contain it", x, rs.URL)
			}
		}
		if fail != "" {
			return core.Failf("op %d (%s peer %d): %s", oi, op.Op, p, fail)
		}
		// available count
		want := 0
		for x := 0; x < np; x++ {
			for q := range peers {
				if connected[q] && have[q][x] {
					want++
					break
				}
			}
		}
		if got := int(pk.Available()); got != want {
			return core.Failf("op %d (%s): Available() = %d, %d pieces are held by at least one connected peer", oi, op.Op, got, want)
		}
		// requested bookkeeping agrees
		for x := 0; x < np; x++ {
			n, _ := requesters(x)
			if got := len(pk.RequestedPeers(uint32(x))); got != n {
				return core.Failf("op %d (%s): picker records %d requesters of piece %d, the mirror has %d", oi, op.Op, got, x, n)
			}
		}
	}
	res := core.Result{}
	for k := range lab {
		res.Labels = append(res.Labels, k)
	}
	res.Nontrivial = picks > 0 && (lab["choke-during-download"] || lab["snub"] || lab["disconnect"] || lab["hash-fail"])
	return res
}

// isEdge reports whether piece x contains the first or the last byte of some file (file-edge pieces are taken first in sequential mode).
func isEdge(l *model.Layout, x int) bool {
	pl := int64(l.PieceLength)
	var off int64
	for _, f := range l.Files {
		if f.Length > 0 {
			if off/pl == int64(x) || (off+f.Length-1)/pl == int64(x) {
				return true
			}
			// the edge is up to 1% of the file (at least one piece): treat pieces within that distance as edges too
			edge := f.Length / 100
			if int64(x)*pl < off+edge+pl && int64(x+1)*pl > off {
				return true
			}
			if int64(x+1)*pl > off+f.Length-edge-pl && int64(x)*pl < off+f.Length {
				return true
			}
		}
		off += f.Length
	}
	return false
}

func TestPicker(t *testing.T) { core.Run(t, "c09.picker", genPick, runPick) }
