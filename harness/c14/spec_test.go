package c14

import (
	"bytes"
	"fmt"
	"os"
	"path/filepath"
	"reflect"
	"testing"
	"time"
	"unicode/utf8"

	"github.com/cenkalti/rain/v2/internal/logger"
	"github.com/cenkalti/rain/v2/internal/resumer/boltdbresumer"
	"github.com/cenkalti/rain/v2/verifharness/core"
	"go.etcd.io/bbolt"
	"pgregory.net/rapid"
)

func TestMain(m *testing.M) {
	if os.Getenv("VERIF_DEBUG") == "" {
		logger.Disable()
	}
	os.Exit(m.Run())
}

// SpecOp is one operation on the resume database.
type SpecOp struct {
	Op    string    `json:"op"` // write | info | bitfield | started | stopafterdl | stopaftermeta | cmdrun | read | reopen | readmissing
	ID    string    `json:"id"`
	Spec  *SpecData `json:"spec,omitempty"`
	Bytes []byte    `json:"bytes,omitempty"`
	Flag  bool      `json:"flag,omitempty"`
}

// SpecData mirrors boltdbresumer.Spec with JSON-friendly types.
type SpecData struct {
	InfoHash, Info, Bitfield                                    []byte
	Port                                                        int
	Name                                                        []byte
	Trackers                                                    [][][]byte // byte strings: JSON strings cannot carry invalid UTF-8
	URLList, FixedPeers                                         [][]byte
	AddedAtUnix                                                 int64
	TZOffsetMin                                                 int
	Down, Up, Wasted                                            int64
	SeededForNs                                                 int64
	Started, StopAfterDownload, StopAfterMetadata, CmdRun, Seqn bool
	Version                                                     int
}

type SpecCase struct {
	Ops []SpecOp `json:"ops"`
}

var strPool = []string{"", "http://a/announce", "udp://b:1/x", "http://c/é", "a\"b", "a\\b", "<>&", " ", "x\x00y", "http://t/\xff", "\xc3", "π", "http://d/?q=1&r=2"}

// genStr draws a string. While the invalid-UTF-8 finding is open its shape is excluded by construction
// (the pinned reproducer keeps exercising it); a draw that still contains it is counted as excluded in run.
func genStr(t *rapid.T, l string) string {
	if core.FindingOpen("C14-invalid-utf8-in-string-lists") {
		var valid []string
		for _, s := range strPool {
			if utf8.ValidString(s) {
				valid = append(valid, s)
			}
		}
		return rapid.SampledFrom(valid).Draw(t, l)
	}
	return rapid.SampledFrom(strPool).Draw(t, l)
}

func genSpec(t *rapid.T) *SpecData {
	s := &SpecData{}
	s.InfoHash = rapid.SliceOfN(rapid.Byte(), 20, 20).Draw(t, "ih")
	s.Info = rapid.SliceOfN(rapid.Byte(), 0, 40).Draw(t, "info")
	s.Bitfield = rapid.SliceOfN(rapid.Byte(), 0, 8).Draw(t, "bf")
	s.Port = rapid.SampledFrom([]int{0, 1, 6881, 50000, 65535, -1, 1 << 20}).Draw(t, "port")
	s.Name = []byte(genStr(t, "name"))
	for i := rapid.IntRange(0, 3).Draw(t, "ntiers"); i > 0; i-- {
		var tier [][]byte
		for j := rapid.IntRange(0, 2).Draw(t, "tierlen"); j > 0; j-- {
			tier = append(tier, []byte(genStr(t, "tr")))
		}
		s.Trackers = append(s.Trackers, tier)
	}
	for i := rapid.IntRange(0, 2).Draw(t, "nurl"); i > 0; i-- {
		s.URLList = append(s.URLList, []byte(genStr(t, "url")))
	}
	for i := rapid.IntRange(0, 2).Draw(t, "npeer"); i > 0; i-- {
		s.FixedPeers = append(s.FixedPeers, []byte(genStr(t, "peer")))
	}
	s.AddedAtUnix = rapid.SampledFrom([]int64{0, 1, 1700000000, 1700000001, 4102444800, 951782400}).Draw(t, "added")
	s.TZOffsetMin = rapid.SampledFrom([]int{0, 0, 60, -300, 330, 14 * 60, -12 * 60}).Draw(t, "tz")
	cnt := func(l string) int64 {
		return rapid.SampledFrom([]int64{0, 1, 1 << 31, 1 << 40, 1<<63 - 1, -1}).Draw(t, l)
	}
	s.Down, s.Up, s.Wasted = cnt("down"), cnt("up"), cnt("wasted")
	s.SeededForNs = rapid.SampledFrom([]int64{0, 1, 999, 1e9, 3600e9 + 1, 1<<63 - 1, -1}).Draw(t, "seeded")
	s.Started, s.StopAfterDownload, s.StopAfterMetadata = rapid.Bool().Draw(t, "st"), rapid.Bool().Draw(t, "sad"), rapid.Bool().Draw(t, "sam")
	s.CmdRun, s.Seqn = rapid.Bool().Draw(t, "cr"), rapid.Bool().Draw(t, "seq")
	s.Version = rapid.SampledFrom([]int{0, 1, 2, 3}).Draw(t, "ver")
	return s
}

func genSpecCase(t *rapid.T) SpecCase {
	var c SpecCase
	ids := []string{"a", "b", "AAAAAAAAAAAAAAAAAAAAAA", "id with space", "é"}
	n := rapid.IntRange(1, 14).Draw(t, "nops")
	for i := 0; i < n; i++ {
		op := SpecOp{ID: rapid.SampledFrom(ids).Draw(t, "id")}
		switch rapid.IntRange(0, 11).Draw(t, "op") {
		case 0, 1, 2, 3:
			op.Op = "write"
			op.Spec = genSpec(t)
		case 4:
			op.Op = "info"
			op.Bytes = rapid.SliceOfN(rapid.Byte(), 0, 30).Draw(t, "bytes")
		case 5:
			op.Op = "bitfield"
			op.Bytes = rapid.SliceOfN(rapid.Byte(), 0, 8).Draw(t, "bytes")
		case 6:
			op.Op = "started"
			op.Flag = rapid.Bool().Draw(t, "flag")
		case 7:
			op.Op = rapid.SampledFrom([]string{"stopafterdl", "stopaftermeta", "cmdrun"}).Draw(t, "which")
		case 8:
			op.Op = "reopen"
		default:
			op.Op = "read"
		}
		c.Ops = append(c.Ops, op)
	}
	c.Ops = append(c.Ops, SpecOp{Op: "reopen"})
	for _, id := range ids {
		c.Ops = append(c.Ops, SpecOp{Op: "read", ID: id})
	}
	return c
}

func strs(b [][]byte) []string {
	var out []string
	for _, x := range b {
		out = append(out, string(x))
	}
	return out
}

func (s *SpecData) toSpec() *boltdbresumer.Spec {
	loc := time.FixedZone("x", s.TZOffsetMin*60)
	var tiers [][]string
	for _, t := range s.Trackers {
		tiers = append(tiers, strs(t))
	}
	return &boltdbresumer.Spec{
		InfoHash: s.InfoHash, Port: s.Port, Name: string(s.Name), Trackers: tiers, URLList: strs(s.URLList), FixedPeers: strs(s.FixedPeers),
		Info: s.Info, Bitfield: s.Bitfield, AddedAt: time.Unix(s.AddedAtUnix, 0).In(loc),
		BytesDownloaded: s.Down, BytesUploaded: s.Up, BytesWasted: s.Wasted, SeededFor: time.Duration(s.SeededForNs),
		Started: s.Started, StopAfterDownload: s.StopAfterDownload, StopAfterMetadata: s.StopAfterMetadata, CompleteCmdRun: s.CmdRun, Sequential: s.Seqn, Version: s.Version,
	}
}

func hasInvalidUTF8(s *SpecData) bool {
	bad := false
	chk := func(x []byte) {
		if !utf8.Valid(x) {
			bad = true
		}
	}
	for _, t := range s.Trackers {
		for _, x := range t {
			chk(x)
		}
	}
	for _, x := range s.URLList {
		chk(x)
	}
	for _, x := range s.FixedPeers {
		chk(x)
	}
	return bad
}

func normStrs(a []string) []string {
	if len(a) == 0 {
		return nil
	}
	return a
}

func cmpSpec(got *boltdbresumer.Spec, w *SpecData) string {
	want := w.toSpec()
	if !bytes.Equal(got.InfoHash, want.InfoHash) || !bytes.Equal(got.Info, want.Info) || !bytes.Equal(got.Bitfield, want.Bitfield) {
		return fmt.Sprintf("info-hash/info/bitfield read back %x/%x/%x, written %x/%x/%x", got.InfoHash, got.Info, got.Bitfield, want.InfoHash, want.Info, want.Bitfield)
	}
	if got.Port != want.Port || got.Name != want.Name {
		return fmt.Sprintf("port/name read back %d/%q, written %d/%q", got.Port, got.Name, want.Port, want.Name)
	}
	if len(got.Trackers) != len(want.Trackers) {
		return fmt.Sprintf("trackers read back %q, written %q", got.Trackers, want.Trackers)
	}
	for i := range want.Trackers {
		if !reflect.DeepEqual(normStrs(got.Trackers[i]), normStrs(want.Trackers[i])) {
			return fmt.Sprintf("tracker tier %d read back %q, written %q", i, got.Trackers[i], want.Trackers[i])
		}
	}
	if !reflect.DeepEqual(normStrs(got.URLList), normStrs(want.URLList)) || !reflect.DeepEqual(normStrs(got.FixedPeers), normStrs(want.FixedPeers)) {
		return fmt.Sprintf("url list / fixed peers read back %q / %q, written %q / %q", got.URLList, got.FixedPeers, want.URLList, want.FixedPeers)
	}
	if !got.AddedAt.Equal(want.AddedAt) {
		return fmt.Sprintf("added-at read back %v, written %v", got.AddedAt, want.AddedAt)
	}
	if got.BytesDownloaded != want.BytesDownloaded || got.BytesUploaded != want.BytesUploaded || got.BytesWasted != want.BytesWasted || got.SeededFor != want.SeededFor {
		return fmt.Sprintf("counters read back %d/%d/%d/%v, written %d/%d/%d/%v", got.BytesDownloaded, got.BytesUploaded, got.BytesWasted, got.SeededFor, want.BytesDownloaded, want.BytesUploaded, want.BytesWasted, want.SeededFor)
	}
	if got.Started != want.Started || got.StopAfterDownload != want.StopAfterDownload || got.StopAfterMetadata != want.StopAfterMetadata || got.CompleteCmdRun != want.CompleteCmdRun || got.Sequential != want.Sequential {
		return fmt.Sprintf("flags read back %v/%v/%v/%v/%v, written %v/%v/%v/%v/%v", got.Started, got.StopAfterDownload, got.StopAfterMetadata, got.CompleteCmdRun, got.Sequential,
			want.Started, want.StopAfterDownload, want.StopAfterMetadata, want.CompleteCmdRun, want.Sequential)
	}
	wv := want.Version
	if wv == 0 {
		wv = boltdbresumer.LatestVersion
	}
	if got.Version != wv {
		return fmt.Sprintf("version read back %d, written %d", got.Version, wv)
	}
	return ""
}

func runSpecCase(c SpecCase) core.Result {
	base := "/dev/shm"
	if _, err := os.Stat(base); err != nil {
		base = os.TempDir()
	}
	dir, err := os.MkdirTemp(base, "verif-c14-")
	if err != nil {
		panic(err)
	}
	defer os.RemoveAll(dir)
	path := filepath.Join(dir, "resume.db")
	open := func() (*bbolt.DB, *boltdbresumer.Resumer) {
		db, err := bbolt.Open(path, 0o600, &bbolt.Options{Timeout: time.Second, NoSync: true})
		if err != nil {
			panic(err)
		}
		r, err := boltdbresumer.New(db, []byte("torrents"))
		if err != nil {
			panic(err)
		}
		return db, r
	}
	db, r := open()
	defer func() { db.Close() }()
	model := map[string]*SpecData{}
	res := core.Result{}
	reopened, partial := false, false
	for oi, op := range c.Ops {
		m := model[op.ID]
		switch op.Op {
		case "write":
			if hasInvalidUTF8(op.Spec) && core.FindingOpen("C14-invalid-utf8-in-string-lists") && !core.Replaying() {
				res.Excluded = "C14-invalid-utf8-in-string-lists"
				return res
			}
			if err := r.Write(op.ID, op.Spec.toSpec()); err != nil {
				if false {
					continue
				}
				return core.Failf("op %d: Write(%q) failed: %v", oi, op.ID, err)
			}
			cp := *op.Spec
			model[op.ID] = &cp
		case "info":
			if err := r.WriteInfo(op.ID, op.Bytes); err != nil {
				return core.Failf("op %d: WriteInfo: %v", oi, err)
			}
			if m != nil {
				m.Info = op.Bytes
				partial = true
			}
		case "bitfield":
			if err := r.WriteBitfield(op.ID, op.Bytes); err != nil {
				return core.Failf("op %d: WriteBitfield: %v", oi, err)
			}
			if m != nil {
				m.Bitfield = op.Bytes
				partial = true
			}
		case "started":
			if err := r.WriteStarted(op.ID, op.Flag); err != nil {
				return core.Failf("op %d: WriteStarted: %v", oi, err)
			}
			if m != nil {
				m.Started = op.Flag
				partial = true
			}
		case "stopafterdl":
			_ = r.HandleStopAfterDownload(op.ID)
			if m != nil {
				m.Started, m.StopAfterDownload = false, false
				partial = true
			}
		case "stopaftermeta":
			_ = r.HandleStopAfterMetadata(op.ID)
			if m != nil {
				m.Started, m.StopAfterMetadata = false, false
				partial = true
			}
		case "cmdrun":
			_ = r.WriteCompleteCmdRun(op.ID)
			if m != nil {
				m.CmdRun = true
				partial = true
			}
		case "reopen":
			if err := db.Close(); err != nil {
				return core.Failf("op %d: close: %v", oi, err)
			}
			db, r = open()
			reopened = true
		case "read":
			got, err := r.Read(op.ID)
			if m == nil {
				if err == nil {
					return core.Failf("op %d: Read(%q) of a torrent that was never written returned %+v", oi, op.ID, got)
				}
				continue
			}
			if err != nil {
				return core.Failf("op %d: Read(%q): %v", oi, op.ID, err)
			}
			if s := cmpSpec(got, m); s != "" {
				return core.Failf("op %d: Read(%q): %s", oi, op.ID, s)
			}
		}
	}
	res.Nontrivial = reopened && len(model) > 0
	if partial {
		res.Labels = append(res.Labels, "partial-update")
	}
	return res
}

func TestSpec(t *testing.T) { core.Run(t, "c14.spec", genSpecCase, runSpecCase) }
