package c14

import (
	"bytes"
	"encoding/hex"
	"fmt"
	"os"
	"path/filepath"
	"reflect"
	"sort"
	"strings"
	"sync"
	"testing"
	"time"

	"github.com/cenkalti/rain/v2/internal/resumer/boltdbresumer"
	"github.com/cenkalti/rain/v2/torrent"
	"github.com/cenkalti/rain/v2/verifharness/core"
	"github.com/cenkalti/rain/v2/verifharness/model"
	"github.com/cenkalti/rain/v2/verifharness/refwire"
	"github.com/cenkalti/rain/v2/verifharness/sess"
	"github.com/cenkalti/rain/v2/verifharness/speer"
	"github.com/cenkalti/rain/v2/verifharness/sstore"
	"go.etcd.io/bbolt"
	"pgregory.net/rapid"
)

// c14.registry: histories of add / failing add / magnet / remove / start / stop / add-tracker / upload traffic /
// concurrent adds and removes / compact / close+reopen on a real Session with a port range of 2..5 ports, against a
// model of the registry. After every step: ids unique and equal to the model's, ports unique, inside the range and
// conserved (free + owned == range). At every close the resume database is read with the harness's own bbolt handle
// and compared record by record with the model and with what the torrents reported just before the close; after the
// reopen the session must show the same torrents again.

type RegOp struct {
	Op      string     `json:"op"`
	L       int        `json:"layout,omitempty"`
	ID      string     `json:"id,omitempty"`
	Stopped bool       `json:"stopped,omitempty"`
	SAD     bool       `json:"stop_after_download,omitempty"`
	SAM     bool       `json:"stop_after_metadata,omitempty"`
	Seq     bool       `json:"sequential,omitempty"`
	Tiers   [][]string `json:"tiers,omitempty"`
	URLs    []string   `json:"url_list,omitempty"`
	K       int        `json:"k,omitempty"`
	Keep    bool       `json:"keep_data,omitempty"`
	N       int        `json:"n,omitempty"`
	Resume  bool       `json:"resume_on_startup,omitempty"`
	URL     string     `json:"url,omitempty"`
}

type RegCase struct {
	Layouts []model.Layout `json:"layouts"`
	Ports   int            `json:"ports"`
	Ops     []RegOp        `json:"ops"`
}

var trackerPool = []string{"http://127.0.0.1:1/announce", "udp://127.0.0.1:1/announce", "http://127.0.0.1:2/a?x=1", "http://[::1]:1/announce", "https://127.0.0.1:3/ann"}

func genTiers(t *rapid.T) [][]string {
	var tiers [][]string
	for i := rapid.IntRange(0, 2).Draw(t, "ntiers"); i > 0; i-- {
		var tier []string
		for j := rapid.IntRange(1, 2).Draw(t, "tierlen"); j > 0; j-- {
			tier = append(tier, rapid.SampledFrom(trackerPool).Draw(t, "tr"))
		}
		tiers = append(tiers, tier)
	}
	return tiers
}

func genReg(t *rapid.T) RegCase {
	c := RegCase{Ports: rapid.IntRange(2, 5).Draw(t, "ports")}
	for i := 0; i < 3; i++ {
		l := model.GenLayout(t, model.LayoutOpts{MaxTotal: 96 << 10, MaxPieces: 6, MaxFiles: 2, NoPadding: true, BigPieces: true})
		l.Name = fmt.Sprintf("%s-%d", l.Name, i)
		if l.Single {
			l.Files[0].Path = []string{l.Name}
		}
		c.Layouts = append(c.Layouts, l)
	}
	n := rapid.IntRange(3, 14).Draw(t, "nops")
	for i := 0; i < n; i++ {
		op := RegOp{Op: rapid.SampledFrom([]string{"add", "add", "add", "add", "magnet", "addbad", "remove", "remove", "removeunknown", "start", "stop", "tracker",
			"transfer", "cadd", "cremove", "compact", "reopen", "reopen"}).Draw(t, "op")}
		op.K = rapid.IntRange(0, 7).Draw(t, "k")
		switch op.Op {
		case "add", "magnet", "cadd":
			op.L = rapid.IntRange(0, 2).Draw(t, "layout")
			op.ID = rapid.SampledFrom([]string{"", "", "", "x", "y"}).Draw(t, "id")
			op.Stopped = rapid.Bool().Draw(t, "stopped")
			op.SAD = rapid.IntRange(0, 5).Draw(t, "sad") == 0
			op.SAM = rapid.IntRange(0, 5).Draw(t, "sam") == 0
			op.Seq = rapid.IntRange(0, 3).Draw(t, "seq") == 0
			op.Tiers = genTiers(t)
			if op.Op == "add" && rapid.IntRange(0, 3).Draw(t, "urls") == 0 {
				op.URLs = []string{"http://127.0.0.1:1/ws/"}
			}
			if op.Op == "cadd" {
				op.N = rapid.IntRange(2, 6).Draw(t, "n")
				op.Stopped = true
			}
		case "remove", "cremove":
			op.Keep = rapid.Bool().Draw(t, "keep")
		case "tracker":
			op.URL = rapid.SampledFrom(trackerPool).Draw(t, "url")
		case "transfer":
			op.N = rapid.IntRange(1, 5).Draw(t, "blocks")
		case "reopen", "compact":
			op.Resume = rapid.Bool().Draw(t, "resume")
		}
		c.Ops = append(c.Ops, op)
	}
	c.Ops = append(c.Ops, RegOp{Op: "reopen", Resume: rapid.Bool().Draw(t, "finalResume")})
	return c
}

type mTor struct {
	id            string
	ih            [20]byte
	name          string
	port          int
	tiers         [][]string
	urls          []string
	sad, sam, seq bool
	started       bool // the persistent flag: set by a started add and Start, cleared by Stop and by stop-after-download firing
	layout        int  // -1: magnet without metadata
	h             *torrent.Torrent
	addedAt       time.Time
}

type regRun struct {
	c        *RegCase
	cfg      torrent.Config
	prov     *sstore.Provider
	ses      *torrent.Session
	m        map[string]*mTor
	F        [][]byte
	pmu      sync.Mutex
	nextL    int
	lab      map[string]bool
	counts   map[string]int
	dir      string
	nCompact int
}

func normTiers(t [][]string) [][]string {
	if len(t) == 0 {
		return nil
	}
	return t
}

func (r *regRun) ids() []string {
	var out []string
	for id := range r.m {
		out = append(out, id)
	}
	sort.Strings(out)
	return out
}

// inv checks the registry against the model.
func (r *regRun) inv(after string) string {
	list := r.ses.ListTorrents()
	seen := map[string]bool{}
	ports := map[int]string{}
	for _, t := range list {
		id := t.ID()
		if seen[id] {
			return fmt.Sprintf("after %s: two torrents in the session have id %q", after, id)
		}
		seen[id] = true
		mt, ok := r.m[id]
		if !ok {
			return fmt.Sprintf("after %s: the session lists torrent %q, which the history does not contain (model: %v)", after, id, r.ids())
		}
		p := t.Port()
		if p < int(r.cfg.PortBegin) || p >= int(r.cfg.PortEnd) {
			return fmt.Sprintf("after %s: torrent %q has port %d outside the configured range [%d,%d)", after, id, p, r.cfg.PortBegin, r.cfg.PortEnd)
		}
		if o, dup := ports[p]; dup {
			return fmt.Sprintf("after %s: torrents %q and %q share port %d", after, o, id, p)
		}
		ports[p] = id
		if p != mt.port {
			return fmt.Sprintf("after %s: torrent %q has port %d, it had %d before", after, id, p, mt.port)
		}
		if ih := t.InfoHash(); !bytes.Equal(ih[:], mt.ih[:]) {
			return fmt.Sprintf("after %s: torrent %q has info-hash %x, want %x", after, id, ih, mt.ih)
		}
		if t.Name() != mt.name {
			return fmt.Sprintf("after %s: torrent %q has name %q, want %q", after, id, t.Name(), mt.name)
		}
		if !t.AddedAt().Truncate(time.Second).Equal(mt.addedAt.Truncate(time.Second)) {
			return fmt.Sprintf("after %s: torrent %q AddedAt %v, was %v", after, id, t.AddedAt(), mt.addedAt)
		}
		if g := r.ses.GetTorrent(id); g == nil || g.ID() != id {
			return fmt.Sprintf("after %s: GetTorrent(%q) does not return the listed torrent", after, id)
		}
	}
	if len(seen) != len(r.m) {
		var missing []string
		for id := range r.m {
			if !seen[id] {
				missing = append(missing, id)
			}
		}
		sort.Strings(missing)
		return fmt.Sprintf("after %s: torrents %v are missing from the session", after, missing)
	}
	st := r.ses.Stats()
	if st.Torrents != len(r.m) {
		return fmt.Sprintf("after %s: Stats().Torrents = %d, the session holds %d", after, st.Torrents, len(r.m))
	}
	if want := r.c.Ports - len(r.m); st.PortsAvailable != want {
		return fmt.Sprintf("after %s: %d ports are reported free; the range has %d ports and %d torrents own one each (want %d)", after, st.PortsAvailable, r.c.Ports, len(r.m), want)
	}
	return ""
}

func stable(s torrent.Status) bool {
	return s == torrent.Stopped || s == torrent.Seeding || s == torrent.Downloading || s == torrent.DownloadingMetadata
}

// settle waits until every torrent is in a state that does not change by itself.
func (r *regRun) settle() {
	deadline := time.Now().Add(5 * time.Second)
	okRounds := 0
	var prev string
	for time.Now().Before(deadline) && okRounds < 3 {
		all := true
		var sig []string
		for _, id := range r.ids() {
			s := r.m[id].h.Stats().Status
			sig = append(sig, fmt.Sprint(s))
			if !stable(s) {
				all = false
			}
		}
		cur := strings.Join(sig, ",")
		if all && cur == prev {
			okRounds++
		} else {
			okRounds = 0
		}
		prev = cur
		time.Sleep(15 * time.Millisecond)
	}
}

func (r *regRun) pick(k int, pred func(*mTor) bool) *mTor {
	var c []*mTor
	for _, id := range r.ids() {
		if pred == nil || pred(r.m[id]) {
			c = append(c, r.m[id])
		}
	}
	if len(c) == 0 {
		return nil
	}
	return c[k%len(c)]
}

func (r *regRun) metainfo(op *RegOp) []byte {
	l := &r.c.Layouts[op.L]
	return l.Metainfo(r.F[op.L], op.Tiers, op.URLs)
}

func (r *regRun) opts(op *RegOp) *torrent.AddTorrentOptions {
	return &torrent.AddTorrentOptions{ID: op.ID, Stopped: op.Stopped, StopAfterDownload: op.SAD, StopAfterMetadata: op.SAM, Sequential: op.Seq}
}

func (r *regRun) record(op *RegOp, t *torrent.Torrent, magnet bool) {
	mt := &mTor{id: t.ID(), port: t.Port(), tiers: normTiers(op.Tiers), urls: op.URLs, sad: op.SAD, sam: op.SAM, seq: op.Seq, started: !op.Stopped, layout: op.L, h: t, addedAt: t.AddedAt()}
	if magnet {
		mt.layout = -1
		mt.urls = nil
		// every tr= parameter of a magnet link is a tier of its own
		mt.tiers = nil
		for _, tier := range op.Tiers {
			for _, tr := range tier {
				mt.tiers = append(mt.tiers, []string{tr})
			}
		}
		mt.name = "mag"
		copy(mt.ih[:], magnetHash(op.L))
	} else {
		l := &r.c.Layouts[op.L]
		mt.ih = l.InfoHash(r.F[op.L])
		mt.name = l.Name
	}
	r.m[mt.id] = mt
}

func magnetHash(l int) []byte {
	b := bytes.Repeat([]byte{0xa0 + byte(l)}, 20)
	b[0] = 0
	return b
}

func (r *regRun) magnetURI(op *RegOp) string {
	u := "magnet:?xt=urn:btih:" + hex.EncodeToString(magnetHash(op.L)) + "&dn=mag"
	for _, tier := range op.Tiers {
		for _, tr := range tier {
			u += "&tr=" + strings.NewReplacer(":", "%3A", "/", "%2F", "?", "%3F", "=", "%3D", "[", "%5B", "]", "%5D").Replace(tr)
		}
	}
	return u
}

// dbRecords reads every record of a resume database with the harness's own handle.
func dbRecords(path string) (map[string]*boltdbresumer.Spec, map[string]string, error) {
	db, err := bbolt.Open(path, 0o600, &bbolt.Options{Timeout: 2 * time.Second, NoSync: true})
	if err != nil {
		return nil, nil, err
	}
	defer db.Close()
	var ids []string
	err = db.View(func(tx *bbolt.Tx) error {
		b := tx.Bucket([]byte("torrents"))
		if b == nil {
			return nil
		}
		return b.ForEach(func(k, v []byte) error {
			ids = append(ids, string(k))
			return nil
		})
	})
	if err != nil {
		return nil, nil, err
	}
	res, err := boltdbresumer.New(db, []byte("torrents"))
	if err != nil {
		return nil, nil, err
	}
	out := map[string]*boltdbresumer.Spec{}
	bad := map[string]string{}
	for _, id := range ids {
		sp, err := res.Read(id)
		if err != nil {
			bad[id] = err.Error()
			continue
		}
		out[id] = sp
	}
	return out, bad, nil
}

type pre struct {
	status           torrent.Status
	up, down, wasted int64
	seeded           time.Duration
	have             uint32
}

func (r *regRun) snapshot() map[string]pre {
	out := map[string]pre{}
	for id, mt := range r.m {
		st := mt.h.Stats()
		out[id] = pre{status: st.Status, up: st.Bytes.Uploaded, down: st.Bytes.Downloaded, wasted: st.Bytes.Wasted, seeded: st.SeededFor, have: st.Pieces.Have}
	}
	return out
}

// checkDB compares the records of a database with the model and the pre-close snapshot.
func (r *regRun) checkDB(what string, recs map[string]*boltdbresumer.Spec, bad map[string]string, snap map[string]pre, only func(*mTor) bool) string {
	for id, e := range bad {
		return fmt.Sprintf("%s: the record of torrent %q cannot be read: %s", what, id, e)
	}
	want := map[string]bool{}
	for id, mt := range r.m {
		if only == nil || only(mt) {
			want[id] = true
		}
	}
	for id := range recs {
		if !want[id] {
			return fmt.Sprintf("%s: holds a record for %q, which is not a torrent of the session (session: %v)", what, id, r.ids())
		}
	}
	for id := range want {
		sp := recs[id]
		mt := r.m[id]
		if sp == nil {
			return fmt.Sprintf("%s: no record for torrent %q of the session", what, id)
		}
		if !bytes.Equal(sp.InfoHash, mt.ih[:]) {
			return fmt.Sprintf("%s: torrent %q info-hash %x, want %x", what, id, sp.InfoHash, mt.ih)
		}
		if sp.Port != mt.port {
			return fmt.Sprintf("%s: torrent %q port %d, the torrent listens on %d", what, id, sp.Port, mt.port)
		}
		if sp.Name != mt.name {
			return fmt.Sprintf("%s: torrent %q name %q, want %q", what, id, sp.Name, mt.name)
		}
		if !reflect.DeepEqual(normTiers(sp.Trackers), normTiers(mt.tiers)) {
			return fmt.Sprintf("%s: torrent %q trackers %v, the torrent was given %v", what, id, sp.Trackers, mt.tiers)
		}
		if len(sp.URLList) != len(mt.urls) || (len(mt.urls) > 0 && !reflect.DeepEqual(sp.URLList, mt.urls)) {
			return fmt.Sprintf("%s: torrent %q web seeds %v, the torrent was given %v", what, id, sp.URLList, mt.urls)
		}
		if mt.layout >= 0 {
			if want := r.c.Layouts[mt.layout].InfoBytes(r.F[mt.layout]); !bytes.Equal(sp.Info, want) {
				return fmt.Sprintf("%s: torrent %q: stored info dictionary (%d bytes) differs from the one it was added with (%d bytes)", what, id, len(sp.Info), len(want))
			}
		} else if len(sp.Info) != 0 {
			return fmt.Sprintf("%s: torrent %q (magnet, no metadata) has a stored info dictionary", what, id)
		}
		if sp.Sequential != mt.seq || sp.StopAfterMetadata != mt.sam {
			return fmt.Sprintf("%s: torrent %q options sequential=%v stop_after_metadata=%v, added with %v/%v", what, id, sp.Sequential, sp.StopAfterMetadata, mt.seq, mt.sam)
		}
		if sp.StopAfterDownload != mt.sad {
			return fmt.Sprintf("%s: torrent %q stop_after_download=%v, want %v", what, id, sp.StopAfterDownload, mt.sad)
		}
		if !sp.AddedAt.Truncate(time.Second).Equal(mt.addedAt.Truncate(time.Second)) {
			return fmt.Sprintf("%s: torrent %q added_at %v, want %v", what, id, sp.AddedAt, mt.addedAt)
		}
		p := snap[id]
		if sp.Started != mt.started {
			return fmt.Sprintf("%s: torrent %q started flag %v, want %v (the torrent was %v at that moment)", what, id, sp.Started, mt.started, p.status)
		}
		if sp.BytesUploaded != p.up || sp.BytesDownloaded != p.down || sp.BytesWasted != p.wasted {
			return fmt.Sprintf("%s: torrent %q counters uploaded/downloaded/wasted %d/%d/%d, the torrent reported %d/%d/%d at that moment",
				what, id, sp.BytesUploaded, sp.BytesDownloaded, sp.BytesWasted, p.up, p.down, p.wasted)
		}
		if sp.SeededFor < p.seeded-time.Second {
			return fmt.Sprintf("%s: torrent %q seeded_for %v, the torrent reported %v at that moment", what, id, sp.SeededFor, p.seeded)
		}
	}
	return ""
}

func (r *regRun) open(resume bool) string {
	cfg := r.cfg
	cfg.ResumeOnStartup = resume
	ses, err := torrent.NewSession(cfg)
	if err != nil {
		return fmt.Sprintf("reopening the session on its own database failed: %v", err)
	}
	r.ses = ses
	for _, t := range ses.ListTorrents() {
		if mt, ok := r.m[t.ID()]; ok {
			mt.h = t
		}
	}
	return ""
}

// reopen closes the session, reads its database, opens it again and compares. With compact it writes a compacted
// database first and continues on that one.
func (r *regRun) reopen(op *RegOp, compact bool) string {
	r.settle()
	snap := r.snapshot()
	var cpath string
	if compact {
		r.nCompact++
		cpath = filepath.Join(r.dir, fmt.Sprintf("compact-%d.db", r.nCompact))
		if err := r.ses.CompactDatabase(cpath); err != nil {
			return fmt.Sprintf("CompactDatabase: %v", err)
		}
	}
	err := r.ses.Close()
	r.ses = nil
	if err != nil {
		return fmt.Sprintf("Session.Close: %v", err)
	}
	recs, bad, err := dbRecords(r.cfg.Database)
	if err != nil {
		return fmt.Sprintf("cannot read the resume database after Close: %v", err)
	}
	if msg := r.checkDB("resume database after Close", recs, bad, snap, nil); msg != "" {
		return msg
	}
	if len(recs) > 0 {
		r.lab["reopen-with-torrents"] = true
	}
	if compact {
		crecs, cbad, err := dbRecords(cpath)
		if err != nil {
			return fmt.Sprintf("cannot read the compacted database: %v", err)
		}
		hasInfo := func(mt *mTor) bool { return mt.layout >= 0 }
		if msg := r.checkDB("compacted database", crecs, cbad, snap, hasInfo); msg != "" {
			return msg
		}
		for id, sp := range crecs {
			o := recs[id]
			if o == nil {
				continue
			}
			if !bytes.Equal(o.Bitfield, sp.Bitfield) || o.CompleteCmdRun != sp.CompleteCmdRun || !reflect.DeepEqual(o.FixedPeers, sp.FixedPeers) && (len(o.FixedPeers) > 0 || len(sp.FixedPeers) > 0) {
				return fmt.Sprintf("compacted database: torrent %q bitfield/complete-cmd/fixed peers %x/%v/%v, the session's own database has %x/%v/%v", id, sp.Bitfield, sp.CompleteCmdRun, sp.FixedPeers, o.Bitfield, o.CompleteCmdRun, o.FixedPeers)
			}
		}
		// continue on the compacted database: torrents without metadata are not carried over
		for id, mt := range r.m {
			if mt.layout < 0 {
				delete(r.m, id)
				r.prov.Forget(id)
			}
		}
		if err := os.Rename(cpath, r.cfg.Database); err != nil {
			panic(err)
		}
		if len(crecs) > 0 {
			r.lab["compact-with-torrents"] = true
		}
	}
	if msg := r.open(op.Resume); msg != "" {
		return msg
	}
	if msg := r.inv("reopen"); msg != "" {
		return msg
	}
	for id, mt := range r.m {
		st := mt.h.Stats()
		p := snap[id]
		if st.Bytes.Uploaded != p.up || st.Bytes.Downloaded != p.down || st.Bytes.Wasted != p.wasted {
			return fmt.Sprintf("after reopen: torrent %q counters uploaded/downloaded/wasted %d/%d/%d, before the restart %d/%d/%d", id, st.Bytes.Uploaded, st.Bytes.Downloaded, st.Bytes.Wasted, p.up, p.down, p.wasted)
		}
		if n := len(mt.h.Webseeds()); n != len(mt.urls) {
			return fmt.Sprintf("after reopen: torrent %q has %d web seeds, %d before the restart", id, n, len(mt.urls))
		}
	}
	r.settle()
	for id, mt := range r.m {
		st := mt.h.Stats().Status
		p := snap[id]
		if !(op.Resume && mt.started) && st != torrent.Stopped {
			return fmt.Sprintf("after reopen (resume on startup %v): torrent %q (started flag %v) is %v; before the restart it was %v", op.Resume, id, mt.started, st, p.status)
		}
		if op.Resume && mt.started && st == torrent.Stopped {
			return fmt.Sprintf("after reopen with resume on startup: torrent %q (started flag set) is stopped; before the restart it was %v", id, p.status)
		}
		// Trackers() lists the announcers of a running torrent: one per tier
		if st != torrent.Stopped {
			if n := len(mt.h.Trackers()); n != len(mt.tiers) {
				return fmt.Sprintf("after reopen: running torrent %q has %d trackers, it had %d tiers before the restart", id, n, len(mt.tiers))
			}
		}
		if mt.layout >= 0 && st != torrent.Stopped && p.have > 0 && mt.h.Stats().Pieces.Have != p.have {
			return fmt.Sprintf("after reopen: torrent %q has %d pieces, %d before the restart", id, mt.h.Stats().Pieces.Have, p.have)
		}
	}
	return ""
}

func runReg(c RegCase) core.Result {
	dir, cleanup := sess.Scratch("c14")
	defer cleanup()
	r := &regRun{c: &c, m: map[string]*mTor{}, lab: map[string]bool{}, counts: map[string]int{}, dir: dir}
	for i := range c.Layouts {
		r.F = append(r.F, c.Layouts[i].Flat())
	}
	r.cfg = sess.Config(dir)
	r.cfg.PortBegin = 21000
	r.cfg.PortEnd = uint16(21000 + c.Ports)
	r.cfg.ResumeWriteInterval = time.Hour // only the writes the property speaks about: add, start/stop, close
	r.cfg.ResumeOnStartup = false
	r.prov = sstore.NewProvider()
	r.prov.Setup = func(id string, m *sstore.Mem) {
		r.pmu.Lock()
		li := r.nextL
		r.pmu.Unlock()
		if li < 0 {
			return
		}
		l := &c.Layouts[li]
		offs := l.FileOffsets()
		for i, f := range l.Files {
			if f.Pad != 0 {
				continue
			}
			m.Files[l.ExpectedPath(i)] = sstore.NewMemFile(m, l.ExpectedPath(i), append([]byte(nil), r.F[li][offs[i]:offs[i]+f.Length]...))
		}
	}
	r.cfg.CustomStorage = r.prov
	ses, err := torrent.NewSession(r.cfg)
	if err != nil {
		return core.Result{Inconcl: "session: " + err.Error()}
	}
	r.ses = ses
	defer func() {
		if r.ses != nil {
			r.ses.Close()
		}
	}()
	setNext := func(l int) {
		r.pmu.Lock()
		r.nextL = l
		r.pmu.Unlock()
	}
	for oi := range c.Ops {
		op := &c.Ops[oi]
		what := fmt.Sprintf("op %d (%s)", oi, op.Op)
		free := c.Ports - len(r.m)
		switch op.Op {
		case "add", "magnet":
			_, dup := r.m[op.ID]
			var t *torrent.Torrent
			var err error
			if op.Op == "add" {
				setNext(op.L)
				t, err = r.ses.AddTorrent(bytes.NewReader(r.metainfo(op)), r.opts(op))
			} else {
				setNext(-1)
				t, err = r.ses.AddURI(r.magnetURI(op), r.opts(op))
			}
			switch {
			case free == 0:
				if err == nil {
					return core.Failf("%s: succeeded although every port of the range is owned by a torrent", what)
				}
				r.lab["add-with-exhausted-ports"] = true
			case op.ID != "" && dup:
				if err == nil {
					return core.Failf("%s: a second torrent with id %q was accepted", what, op.ID)
				}
				r.lab["duplicate-id-rejected"] = true
			default:
				if err != nil || t == nil {
					return core.Failf("%s: adding a valid torrent failed: %v (free ports %d)", what, err, free)
				}
				if op.ID != "" && t.ID() != op.ID {
					return core.Failf("%s: asked for id %q, got %q", what, op.ID, t.ID())
				}
				if _, dup := r.m[t.ID()]; dup {
					return core.Failf("%s: the generated id %q is already in use", what, t.ID())
				}
				r.record(op, t, op.Op == "magnet")
			}
		case "addbad":
			_, err := r.ses.AddTorrent(strings.NewReader("d4:infod6:lengthi-5eee"), nil)
			if err == nil {
				return core.Failf("%s: invalid metainfo accepted", what)
			}
		case "cadd":
			// N concurrent adds, with one explicit id or generated ids
			setNext(op.L)
			type res struct {
				t   *torrent.Torrent
				err error
			}
			out := make([]res, op.N)
			var wg sync.WaitGroup
			mi := r.metainfo(op)
			for i := 0; i < op.N; i++ {
				wg.Add(1)
				go func(i int) {
					defer wg.Done()
					t, err := r.ses.AddTorrent(bytes.NewReader(mi), r.opts(op))
					out[i] = res{t, err}
				}(i)
			}
			wg.Wait()
			var ok []*torrent.Torrent
			for _, o := range out {
				if o.err == nil {
					ok = append(ok, o.t)
				}
			}
			_, dup := r.m[op.ID]
			want := min(op.N, free)
			if op.ID != "" {
				want = min(1, free)
				if dup {
					want = 0
				}
				r.lab["concurrent-add-same-id"] = true
			} else {
				r.lab["concurrent-add"] = true
			}
			if len(ok) != want {
				var errs []string
				for _, o := range out {
					if o.err != nil {
						errs = append(errs, o.err.Error())
					}
				}
				return core.Failf("%s: %d of %d concurrent adds (id %q, %d free ports, id in use: %v) succeeded, want %d; errors: %v", what, len(ok), op.N, op.ID, free, dup, want, errs)
			}
			for _, t := range ok {
				if _, dup := r.m[t.ID()]; dup {
					return core.Failf("%s: two successful adds returned id %q", what, t.ID())
				}
				r.record(op, t, false)
			}
		case "remove", "cremove":
			mt := r.pick(op.K, nil)
			if mt == nil {
				continue
			}
			if op.Op == "remove" {
				if err := r.ses.RemoveTorrent(mt.id, op.Keep); err != nil {
					return core.Failf("%s: RemoveTorrent(%q): %v", what, mt.id, err)
				}
			} else {
				var wg sync.WaitGroup
				errs := make([]error, 3)
				for i := 0; i < 3; i++ {
					wg.Add(1)
					go func(i int) {
						defer wg.Done()
						errs[i] = r.ses.RemoveTorrent(mt.id, op.Keep)
					}(i)
				}
				wg.Wait()
				for _, e := range errs {
					if e != nil {
						return core.Failf("%s: concurrent RemoveTorrent(%q): %v", what, mt.id, e)
					}
				}
				r.lab["concurrent-remove"] = true
			}
			delete(r.m, mt.id)
			r.prov.Forget(mt.id)
			r.lab["remove"] = true
		case "removeunknown":
			if err := r.ses.RemoveTorrent("no-such-id", true); err != nil {
				return core.Failf("%s: removing an unknown id: %v", what, err)
			}
		case "start":
			if mt := r.pick(op.K, nil); mt != nil {
				if err := mt.h.Start(); err != nil {
					return core.Failf("%s: Start(%q): %v", what, mt.id, err)
				}
				mt.started = true
			}
		case "stop":
			if mt := r.pick(op.K, nil); mt != nil {
				if err := mt.h.Stop(); err != nil {
					return core.Failf("%s: Stop(%q): %v", what, mt.id, err)
				}
				mt.started = false
			}
		case "tracker":
			if mt := r.pick(op.K, nil); mt != nil {
				if err := mt.h.AddTracker(op.URL); err != nil {
					return core.Failf("%s: AddTracker(%q, %q): %v", what, mt.id, op.URL, err)
				}
				mt.tiers = append(mt.tiers, []string{op.URL})
				r.lab["add-tracker"] = true
			}
		case "transfer":
			r.settle()
			mt := r.pick(op.K, func(m *mTor) bool { return m.layout >= 0 && m.h.Stats().Status == torrent.Seeding })
			if mt == nil {
				continue
			}
			if n := r.leech(mt, op.N); n > 0 {
				r.lab["upload-traffic"] = true
			}
		case "reopen":
			if msg := r.reopen(op, false); msg != "" {
				return core.Failf("%s: %s", what, msg)
			}
			r.lab["reopen"] = true
		case "compact":
			if msg := r.reopen(op, true); msg != "" {
				return core.Failf("%s: %s", what, msg)
			}
			r.lab["compact"] = true
		}
		r.settle()
		// a running torrent with stop-after-download whose data is complete (all of them here) stops by itself and
		// clears the option and the started flag
		for _, mt := range r.m {
			if mt.sad && mt.layout >= 0 && mt.started && op.Op != "reopen" && op.Op != "compact" {
				if st := mt.h.Stats(); st.Status != torrent.Stopped {
					return core.Failf("%s: torrent %q was added with stop-after-download, has all its data and is %v (have %d/%d)", what, mt.id, st.Status, st.Pieces.Have, st.Pieces.Total)
				}
				mt.sad, mt.started = false, false
				r.lab["stop-after-download-fired"] = true
			}
		}
		if msg := r.inv(what); msg != "" {
			return core.Failf("%s", msg)
		}
	}
	res := core.Result{Nontrivial: r.lab["reopen-with-torrents"] || r.lab["compact-with-torrents"], Counts: r.counts}
	for k := range r.lab {
		res.Labels = append(res.Labels, k)
	}
	sort.Strings(res.Labels)
	return res
}

// leech downloads n blocks from a seeding torrent with a scripted peer; returns the number of blocks received.
func (r *regRun) leech(mt *mTor, n int) int {
	l := &r.c.Layouts[mt.layout]
	ih := mt.ih
	var id [20]byte
	copy(id[:], "-LE0001-registry0000")
	addr := fmt.Sprintf("%s:%d", sess.IP(0), mt.port)
	var p *speer.Peer
	var err error
	for try := 0; try < 40; try++ {
		p, err = speer.Dial(sess.IP(2), addr, speer.Opts{InfoHash: ih, PeerID: id, Fast: true, Ext: true, Reqq: 250}, 2*time.Second)
		if err == nil || !strings.Contains(err.Error(), "refused") {
			break
		}
		time.Sleep(25 * time.Millisecond)
	}
	if err != nil {
		return 0
	}
	defer func() {
		p.Close()
		// wait until the client has noticed
		for i := 0; i < 100 && mt.h.Stats().Peers.Total > 0; i++ {
			time.Sleep(10 * time.Millisecond)
		}
	}()
	p.Send(refwire.Msg{Kind: "havenone"})
	p.Send(refwire.Msg{Kind: "interested"})
	if _, ok := p.WaitFor(0, 3*time.Second, func(m refwire.Msg) bool { return m.Kind == "unchoke" }); !ok {
		return 0
	}
	got := 0
	np := l.NumPieces()
	for k := 0; k < n; k++ {
		pi := k % np
		plen := l.PieceLen(pi)
		nb := (plen + 16383) / 16384
		b := (k / np) % nb * 16384
		ln := min(16384, plen-b)
		from := p.LogLen()
		p.Send(refwire.Msg{Kind: "request", Index: uint32(pi), Begin: uint32(b), Length: uint32(ln)})
		if i, ok := p.WaitFor(from, 3*time.Second, func(m refwire.Msg) bool { return m.Kind == "piece" || m.Kind == "reject" }); ok && p.Log()[i].Msg.Kind == "piece" {
			got++
		}
	}
	return got
}

func TestRegistry(t *testing.T) { core.RunChild(t, "c14.registry", genReg, runReg, 120*time.Second) }
