package c03

import (
	"bytes"
	"fmt"
	"sync"
	"testing"
	"time"

	"github.com/cenkalti/rain/v2/internal/cachedpiece"
	"github.com/cenkalti/rain/v2/internal/piececache"
	"github.com/cenkalti/rain/v2/verifharness/core"
	"github.com/cenkalti/rain/v2/verifharness/model"
	"pgregory.net/rapid"
)

// c03.concurrent: several uploads read through one read cache at the same time ("whatever the read cache currently
// holds or evicts"): 2-6 readers, each with its own generated list of block reads, share a cache that holds one to a
// few cache blocks (so every load evicts) or expires entries after 1 ms. Every buffer returned must equal F.
type CCCase struct {
	L        model.Layout  `json:"layout"`
	ReadSize int64         `json:"read_cache_block_size"`
	Blocks   int           `json:"cache_blocks"` // capacity in cache blocks
	TTLms    int           `json:"ttl_ms"`
	Readers  [][][3]uint32 `json:"readers"`
	Rounds   int           `json:"rounds"` // each reader repeats its list this many times
}

func genCC(t *rapid.T) CCCase {
	c := CCCase{L: model.GenLayout(t, model.LayoutOpts{MaxTotal: 512 << 10, BigPieces: true})}
	c.ReadSize = rapid.SampledFrom([]int64{16384, 16384, 32768, 20000, 65536}).Draw(t, "rs")
	c.Blocks = rapid.IntRange(1, 4).Draw(t, "blocks")
	c.TTLms = rapid.SampledFrom([]int{1, 60000, 60000}).Draw(t, "ttl")
	c.Rounds = rapid.IntRange(5, 40).Draw(t, "rounds")
	for r := rapid.IntRange(2, 6).Draw(t, "nreaders"); r > 0; r-- {
		var reads [][3]uint32
		for i := rapid.IntRange(2, 8).Draw(t, "nreads"); i > 0; i-- {
			reads = append(reads, [3]uint32{rapid.Uint32().Draw(t, "rp"), rapid.Uint32().Draw(t, "ro"), rapid.Uint32().Draw(t, "rl")})
		}
		c.Readers = append(c.Readers, reads)
	}
	return c
}

func runCC(c CCCase) core.Result {
	l := &c.L
	F := l.Flat()
	pieces, err := buildWritten(l, F)
	if err != nil {
		return core.Failf("%v", err)
	}
	cache := piececache.New(c.ReadSize*int64(c.Blocks), time.Duration(c.TTLms)*time.Millisecond, 4)
	defer cache.Close()
	var peerID [20]byte
	var mu sync.Mutex
	fail := ""
	var wg sync.WaitGroup
	for ri, reads := range c.Readers {
		wg.Add(1)
		go func(ri int, reads [][3]uint32) {
			defer wg.Done()
			defer func() {
				if p := recover(); p != nil {
					mu.Lock()
					if fail == "" {
						fail = fmt.Sprintf("reader %d: panic: %v", ri, p)
					}
					mu.Unlock()
				}
			}()
			for round := 0; round < c.Rounds; round++ {
				for k, r := range reads {
					pi := int(r[0] % uint32(len(pieces)))
					p := &pieces[pi]
					off := r[1] % p.Length
					if r[1]%3 != 0 {
						off = off / model.BlockSize * model.BlockSize
					}
					maxLen := min(p.Length-off, model.BlockSize)
					ln := r[2]%maxLen + 1
					if r[2]%4 != 0 {
						ln = maxLen
					}
					buf := make([]byte, ln)
					cp := cachedpiece.New(p, cache, c.ReadSize, peerID)
					n, err := cp.ReadAt(buf, int64(off))
					base := int64(pi)*int64(l.PieceLength) + int64(off)
					var msg string
					switch {
					case err != nil:
						msg = fmt.Sprintf("error %v from an in-memory store", err)
					case n != int(ln):
						msg = fmt.Sprintf("returned %d bytes and no error", n)
					case !bytes.Equal(buf, F[base:base+int64(ln)]):
						msg = "returned bytes of another block"
					}
					if msg != "" {
						mu.Lock()
						if fail == "" {
							fail = fmt.Sprintf("reader %d of %d, round %d, read %d: piece %d ReadAt(off %d, len %d) with cache block %d and room for %d blocks: %s", ri, len(c.Readers), round, k, pi, off, ln, c.ReadSize, c.Blocks, msg)
						}
						mu.Unlock()
						return
					}
				}
			}
		}(ri, reads)
	}
	wg.Wait()
	if fail != "" {
		return core.Failf("%s", fail)
	}
	res := core.Result{Nontrivial: true, Labels: []string{fmt.Sprintf("readers-%d", len(c.Readers)), fmt.Sprintf("cache-blocks-%d", c.Blocks)}}
	if c.TTLms == 1 {
		res.Labels = append(res.Labels, "expiring")
	}
	return res
}

func TestConcurrent(t *testing.T) { core.Run(t, "c03.concurrent", genCC, runCC) }
