package c03

import (
	"bytes"
	"fmt"
	"os"
	"testing"
	"time"

	"github.com/cenkalti/rain/v2/internal/logger"
	"github.com/cenkalti/rain/v2/torrent"
	"github.com/cenkalti/rain/v2/verifharness/core"
	"github.com/cenkalti/rain/v2/verifharness/model"
	"github.com/cenkalti/rain/v2/verifharness/refwire"
	"github.com/cenkalti/rain/v2/verifharness/sess"
	"github.com/cenkalti/rain/v2/verifharness/speer"
	"github.com/cenkalti/rain/v2/verifharness/sstore"
	"pgregory.net/rapid"
)

func TestMain(m *testing.M) {
	if os.Getenv("VERIF_DEBUG") == "" {
		logger.Disable()
	}
	os.Exit(m.Run())
}

// LOp is one action of a scripted leecher.
type LOp struct {
	Op   string `json:"op"`             // interested | notinterested | request | cancel | sleep | barrier
	Kind string `json:"kind,omitempty"` // request: valid | unaligned | zero | toolong | oob-begin | oob-len | bad-index | missing-piece | dup
	A    uint32 `json:"a,omitempty"`    // selectors
	B    uint32 `json:"b,omitempty"`
	C    uint32 `json:"c,omitempty"`
	Ms   int    `json:"ms,omitempty"`
	N    int    `json:"n,omitempty"` // burst size
}

type ServeCase struct {
	L          model.Layout `json:"layout"`
	Missing    []int        `json:"missing"` // pieces whose bytes on storage are damaged (client does not have them)
	CacheBlock int64        `json:"read_cache_block_size"`
	CacheSize  int64        `json:"read_cache_size"`
	CacheTTLms int          `json:"read_cache_ttl_ms"`
	MaxReqIn   int          `json:"max_requests_in"`
	Leechers   [][]LOp      `json:"leechers"`
	Fast       []bool       `json:"fast"`
}

func genServe(t *rapid.T) ServeCase {
	c := ServeCase{L: model.GenLayout(t, model.LayoutOpts{MaxTotal: 300 << 10, MaxPieces: 48, MaxFiles: 5})}
	np := c.L.NumPieces()
	if rapid.IntRange(0, 2).Draw(t, "partial") == 0 {
		for i := 0; i < np; i++ {
			if rapid.IntRange(0, 3).Draw(t, "miss") == 0 {
				c.Missing = append(c.Missing, i)
			}
		}
	}
	c.CacheBlock = rapid.SampledFrom([]int64{1, 100, 4096, 16383, 16384, 16385, 20000, 65536, 131072}).Draw(t, "cb")
	c.CacheSize = rapid.SampledFrom([]int64{0, 1, 16384, 100000, 1 << 28}).Draw(t, "cs")
	c.CacheTTLms = rapid.SampledFrom([]int{1, 50, 60000}).Draw(t, "ttl")
	c.MaxReqIn = rapid.SampledFrom([]int{1, 2, 5, 250}).Draw(t, "maxin")
	nl := rapid.IntRange(1, 3).Draw(t, "nleech")
	for i := 0; i < nl; i++ {
		var ops []LOp
		if rapid.IntRange(0, 4).Draw(t, "startInterested") < 3 {
			ops = append(ops, LOp{Op: "interested"})
		} // else: the client keeps choking this peer; whatever it requests must not be served (unless allowed-fast)
		n := rapid.IntRange(1, 14).Draw(t, "nops")
		for k := 0; k < n; k++ {
			switch rapid.IntRange(0, 11).Draw(t, "op") {
			case 0:
				ops = append(ops, LOp{Op: "notinterested"})
			case 1:
				ops = append(ops, LOp{Op: "interested"})
			case 2:
				ops = append(ops, LOp{Op: "cancel", A: rapid.Uint32().Draw(t, "a")})
			case 3:
				ops = append(ops, LOp{Op: "sleep", Ms: rapid.SampledFrom([]int{1, 5, 60}).Draw(t, "ms")})
			case 4:
				ops = append(ops, LOp{Op: "barrier"})
			default:
				kind := rapid.SampledFrom([]string{"valid", "valid", "valid", "unaligned", "unaligned", "dup", "zero", "toolong", "oob-begin", "oob-len", "bad-index", "missing-piece"}).Draw(t, "kind")
				ops = append(ops, LOp{Op: "request", Kind: kind, A: rapid.Uint32().Draw(t, "a"), B: rapid.Uint32().Draw(t, "b"), C: rapid.Uint32().Draw(t, "c"),
					N: rapid.SampledFrom([]int{1, 1, 1, 3, 8}).Draw(t, "burst")})
			}
		}
		c.Leechers = append(c.Leechers, ops)
		c.Fast = append(c.Fast, rapid.Bool().Draw(t, "fast"))
	}
	return c
}

type req struct{ i, b, l uint32 }

func runServe(c ServeCase) core.Result {
	l := &c.L
	F := l.Flat()
	ih := l.InfoHash(F)
	np := l.NumPieces()
	pl := int(l.PieceLength)
	missing := map[int]bool{}
	mask := l.PadMask()
	for _, m := range c.Missing {
		// a piece can only be damaged if it has data bytes
		for b := m * pl; b < min((m+1)*pl, len(F)); b++ {
			if !mask[b] {
				missing[m] = true
			}
		}
	}
	dir, cleanup := sess.Scratch("c03")
	defer cleanup()
	cfg := sess.Config(dir)
	cfg.ReadCacheBlockSize, cfg.ReadCacheSize, cfg.ReadCacheTTL = c.CacheBlock, c.CacheSize, time.Duration(c.CacheTTLms)*time.Millisecond
	cfg.MaxRequestsIn = c.MaxReqIn
	prov := sstore.NewProvider()
	offs := l.FileOffsets()
	prov.Setup = func(id string, m *sstore.Mem) {
		for i, f := range l.Files {
			if f.Pad != 0 {
				continue
			}
			data := append([]byte(nil), F[offs[i]:offs[i]+f.Length]...)
			for pi := range missing {
				for b := pi * pl; b < min((pi+1)*pl, len(F)); b++ {
					if int64(b) >= offs[i] && int64(b) < offs[i]+f.Length {
						data[int64(b)-offs[i]] ^= 0xff
					}
				}
			}
			m.Files[l.ExpectedPath(i)] = sstore.NewMemFile(m, l.ExpectedPath(i), data)
		}
	}
	cfg.CustomStorage = prov
	ses, err := torrent.NewSession(cfg)
	if err != nil {
		return core.Result{Inconcl: "session: " + err.Error()}
	}
	defer ses.Close()
	tor, err := ses.AddTorrent(bytes.NewReader(l.Metainfo(F, nil, nil)), nil)
	if err != nil {
		return core.Failf("adding a valid torrent failed: %v", err)
	}
	wantHave := np - len(missing)
	ready := false
	for i := 0; i < 1500; i++ {
		st := tor.Stats()
		if (st.Status == torrent.Seeding || st.Status == torrent.Downloading) && int(st.Pieces.Have) == wantHave {
			ready = true
			break
		}
		time.Sleep(10 * time.Millisecond)
	}
	if !ready {
		st := tor.Stats()
		return core.Failf("after 15 s the torrent is %v with %d/%d pieces; storage holds %d correct pieces", st.Status, st.Pieces.Have, st.Pieces.Total, wantHave)
	}
	clientAddr := fmt.Sprintf("%s:%d", sess.IP(0), tor.Port())
	res := core.Result{}
	lab := map[string]bool{}
	var totalReceived int64
	anyClosed := false
	errs := make(chan string, len(c.Leechers))
	type out struct {
		received int64
		closed   bool
		lab      map[string]bool
		settled  bool
	}
	outs := make(chan out, len(c.Leechers))
	for li, ops := range c.Leechers {
		go func(li int, ops []LOp) {
			var id [20]byte
			copy(id[:], fmt.Sprintf("-LE0001-%012d", li))
			var p *speer.Peer
			var err error
			p, err = speer.DialPatient(sess.IP(1+li), clientAddr, speer.Opts{InfoHash: ih, PeerID: id, Fast: c.Fast[li], Ext: true, Reqq: 250})
			if err != nil {
				errs <- fmt.Sprintf("leecher %d cannot connect: %v", li, err)
				return
			}
			defer p.Close()
			if c.Fast[li] && p.ClientFast() {
				p.Send(refwire.Msg{Kind: "havenone"})
			}
			mylab := map[string]bool{}
			var sent []req
			for _, op := range ops {
				if p.Closed() {
					break
				}
				switch op.Op {
				case "interested", "notinterested":
					p.Send(refwire.Msg{Kind: op.Op})
				case "sleep":
					time.Sleep(time.Duration(op.Ms) * time.Millisecond)
				case "barrier":
					p.Barrier(3 * time.Second)
				case "cancel":
					if len(sent) > 0 {
						r := sent[int(op.A)%len(sent)]
						p.Send(refwire.Msg{Kind: "cancel", Index: r.i, Begin: r.b, Length: r.l})
					}
				case "request":
					for k := 0; k < max(op.N, 1); k++ {
						pi := int(op.A+uint32(k)*7) % np
						plen := uint32(l.PieceLen(pi))
						r := req{i: uint32(pi)}
						switch op.Kind {
						case "valid":
							nb := (plen + 16383) / 16384
							r.b = ((op.B + uint32(k)) % nb) * 16384
							r.l = min(16384, plen-r.b)
						case "unaligned", "dup":
							r.b = (op.B + uint32(k)*977) % plen
							r.l = op.C%min(16384, plen-r.b) + 1
							if op.C%4 == 0 {
								r.l = min(16384, plen-r.b)
							}
							if op.Kind == "dup" && len(sent) > 0 {
								r = sent[int(op.C)%len(sent)]
							}
						case "zero":
							r.b, r.l = op.B%plen, 0
						case "toolong":
							r.b, r.l = 0, 16385+op.C%100
						case "oob-begin":
							r.b, r.l = plen+op.B%3, 1
							if op.B%2 == 0 {
								r.b = 0xffffffff - op.B%16
								r.l = 16 + op.C%16384
							}
						case "oob-len":
							r.b = op.B % plen
							r.l = plen - r.b + 1 + op.C%3
						case "bad-index":
							r.i, r.b, r.l = uint32(np)+op.A%3, 0, 1
							if op.A%2 == 0 {
								r.i = 0xffffffff - op.A%5
							}
						case "missing-piece":
							r.b, r.l = 0, min(16384, plen)
							found := false
							for m := range missing {
								r.i, found = uint32(m), true
								r.l = min(16384, uint32(l.PieceLen(m)))
								break
							}
							if !found {
								continue
							}
						}
						sent = append(sent, r)
						p.Send(refwire.Msg{Kind: "request", Index: r.i, Begin: r.b, Length: r.l})
						mylab[op.Kind] = true
					}
				}
			}
			// quiesce: barrier (if still connected), then a short wait for stragglers
			settled := true
			if !p.Closed() {
				// everything the client queued before the barrier's answer has arrived once the answer is here; a barrier
				// that times out (loaded machine, slow disk double) leaves the log incomplete
				_, settled = p.Barrier(15 * time.Second)
			}
			time.Sleep(30 * time.Millisecond)
			// ---- judge the log in stream order ----
			outstanding := map[req]int{}
			choked := true
			allowedFast := map[uint32]bool{}
			var received int64
			for _, e := range p.Log() {
				m := e.Msg
				if e.Out {
					if m.Kind == "request" {
						outstanding[req{m.Index, m.Begin, m.Length}]++
					}
					continue
				}
				switch m.Kind {
				case "choke":
					choked = true
				case "unchoke":
					choked = false
				case "allowedfast":
					allowedFast[m.Index] = true
				case "piece":
					r := req{m.Index, m.Begin, uint32(len(m.Data))}
					received += int64(len(m.Data))
					if outstanding[r] == 0 {
						errs <- fmt.Sprintf("leecher %d received piece(index %d, begin %d, %d bytes) that answers no request it sent (requests sent: %v)", li, m.Index, m.Begin, len(m.Data), clipReqs(sent))
						return
					}
					outstanding[r]--
					if int(m.Index) >= np || len(m.Data) == 0 || len(m.Data) > 16384 || int(m.Begin)+len(m.Data) > l.PieceLen(int(m.Index)) {
						errs <- fmt.Sprintf("leecher %d: invalid request (index %d, begin %d, length %d) was answered with data", li, m.Index, m.Begin, len(m.Data))
						return
					}
					if missing[int(m.Index)] {
						errs <- fmt.Sprintf("leecher %d received data of piece %d, which the client does not have", li, m.Index)
						return
					}
					base := int(m.Index)*pl + int(m.Begin)
					if !bytes.Equal(m.Data, F[base:base+len(m.Data)]) {
						k := 0
						for k < len(m.Data) && m.Data[k] == F[base+k] {
							k++
						}
						errs <- fmt.Sprintf("leecher %d: piece(index %d, begin %d, %d bytes) differs from the torrent content at byte %d (cache block %d, cache size %d)", li, m.Index, m.Begin, len(m.Data), k, c.CacheBlock, c.CacheSize)
						return
					}
					if choked && !allowedFast[m.Index] {
						errs <- fmt.Sprintf("leecher %d was served piece %d while the client was choking it and the piece is not in the allowed-fast set it was granted %v", li, m.Index, keys(allowedFast))
						return
					}
					if int(m.Begin)%16384 != 0 {
						mylab["served-unaligned"] = true
					}
					if int64(m.Begin)/c.CacheBlock != int64(int(m.Begin)+len(m.Data)-1)/c.CacheBlock {
						mylab["served-across-cache-blocks"] = true
					}
					if choked {
						mylab["served-allowed-fast-while-choked"] = true
					}
					mylab["served"] = true
				}
			}
			outs <- out{received, p.Closed(), mylab, settled}
			errs <- ""
		}(li, ops)
	}
	for range c.Leechers {
		if e := <-errs; e != "" {
			return core.Failf("%s", e)
		}
		o := <-outs
		totalReceived += o.received
		anyClosed = anyClosed || o.closed || !o.settled // an unsettled log is as good as a dropped leecher for the counter
		for k := range o.lab {
			lab[k] = true
		}
	}
	// upload counter
	var up int64
	for i := 0; i < 40; i++ {
		up = tor.Stats().Bytes.Uploaded
		if up == totalReceived {
			break
		}
		time.Sleep(10 * time.Millisecond)
	}
	// When the client dropped a leecher (invalid request) the last block's report races with the writer's stop and
	// bytes may be written but never read: the counter is only asserted when every leecher stayed connected.
	if !anyClosed && up != totalReceived {
		return core.Failf("Stats reports %d bytes uploaded, leechers received %d payload bytes (a leecher was disconnected: %v)", up, totalReceived, anyClosed)
	}
	// nothing an attacker did changed the files
	for _, m := range prov.ByID {
		for _, w := range m.Writes() {
			return core.Failf("a seeding client wrote to its storage: %+v", w)
		}
	}
	for k := range lab {
		res.Labels = append(res.Labels, k)
	}
	res.Nontrivial = lab["served-unaligned"] || lab["served-across-cache-blocks"] || (lab["served"] && len(l.Files) > 1)
	return res
}

func clipReqs(r []req) []req {
	if len(r) > 12 {
		return r[len(r)-12:]
	}
	return r
}

func keys(m map[uint32]bool) []uint32 {
	var out []uint32
	for k := range m {
		out = append(out, k)
	}
	return out
}

func TestServe(t *testing.T) { core.RunChild(t, "c03.serve", genServe, runServe, 60*time.Second) }
