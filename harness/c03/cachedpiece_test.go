package c03

import (
	"bytes"
	"fmt"
	"testing"
	"time"

	"github.com/cenkalti/rain/v2/internal/allocator"
	"github.com/cenkalti/rain/v2/internal/cachedpiece"
	"github.com/cenkalti/rain/v2/internal/metainfo"
	"github.com/cenkalti/rain/v2/internal/piece"
	"github.com/cenkalti/rain/v2/internal/piececache"
	"github.com/cenkalti/rain/v2/verifharness/core"
	"github.com/cenkalti/rain/v2/verifharness/model"
	"github.com/cenkalti/rain/v2/verifharness/sstore"
	"pgregory.net/rapid"
)

// CPCase: reads through cachedpiece.ReadAt on a fully written torrent.
type CPCase struct {
	L         model.Layout `json:"layout"`
	ReadSize  int64        `json:"read_cache_block_size"`
	CacheSize int64        `json:"read_cache_size"`
	TTLms     int          `json:"ttl_ms"`
	Reads     [][3]uint32  `json:"reads"` // piece selector, offset selector, length selector (<= 16 KiB)
}

func genCP(t *rapid.T) CPCase {
	c := CPCase{L: model.GenLayout(t, model.LayoutOpts{MaxTotal: 512 << 10})}
	switch rapid.IntRange(0, 5).Draw(t, "rsClass") {
	case 0:
		c.ReadSize = int64(rapid.IntRange(1, 64).Draw(t, "rs"))
	case 1:
		c.ReadSize = rapid.SampledFrom([]int64{16383, 16384, 16385, 32768, 65536, 131072, 200000}).Draw(t, "rs")
	case 2:
		c.ReadSize = int64(c.L.PieceLength) + int64(rapid.IntRange(-1, 1).Draw(t, "d"))
	default:
		c.ReadSize = int64(rapid.IntRange(1, 200000).Draw(t, "rs"))
	}
	if c.ReadSize < 1 {
		c.ReadSize = 1
	}
	switch rapid.IntRange(0, 3).Draw(t, "csClass") {
	case 0:
		c.CacheSize = 0
	case 1:
		c.CacheSize = c.ReadSize
	case 2:
		c.CacheSize = c.ReadSize * int64(rapid.IntRange(2, 4).Draw(t, "k"))
	default:
		c.CacheSize = 1 << 30
	}
	c.TTLms = rapid.SampledFrom([]int{1, 60000}).Draw(t, "ttl")
	n := rapid.IntRange(1, 12).Draw(t, "nreads")
	for i := 0; i < n; i++ {
		c.Reads = append(c.Reads, [3]uint32{rapid.Uint32().Draw(t, "rp"), rapid.Uint32().Draw(t, "ro"), rapid.Uint32().Draw(t, "rl")})
	}
	return c
}

func buildWritten(l *model.Layout, F []byte) ([]piece.Piece, error) {
	info, err := metainfo.NewInfo(l.InfoBytes(F), true, true)
	if err != nil {
		return nil, fmt.Errorf("valid layout rejected: %v", err)
	}
	mem := sstore.NewMem()
	a := allocator.New()
	progressC := make(chan allocator.Progress)
	resultC := make(chan *allocator.Allocator, 1)
	go func() {
		for range progressC {
		}
	}()
	a.Run(info, mem, progressC, resultC)
	close(progressC)
	if a.Error != nil {
		return nil, a.Error
	}
	pieces := piece.NewPieces(info, a.Files)
	for i := range pieces {
		base := int64(i) * int64(l.PieceLength)
		if _, err := pieces[i].Data.Write(F[base : base+int64(pieces[i].Length)]); err != nil {
			return nil, err
		}
		pieces[i].Done = true
	}
	return pieces, nil
}

func runCP(c CPCase) core.Result {
	l := &c.L
	F := l.Flat()
	pieces, err := buildWritten(l, F)
	if err != nil {
		return core.Failf("%v", err)
	}
	cache := piececache.New(c.CacheSize, time.Duration(c.TTLms)*time.Millisecond, 2)
	defer cache.Close()
	res := core.Result{}
	lab := map[string]bool{}
	var peerID [20]byte
	for ri, r := range c.Reads {
		pi := int(r[0] % uint32(len(pieces)))
		p := &pieces[pi]
		off := r[1] % p.Length
		if r[1]%5 == 0 { // align to 16 KiB like an ordinary client
			off = off / model.BlockSize * model.BlockSize
		}
		maxLen := min(p.Length-off, model.BlockSize)
		ln := r[2]%maxLen + 1
		if r[2]%3 == 0 {
			ln = maxLen
		}
		buf := make([]byte, ln)
		for i := range buf {
			buf[i] = 0xEE
		}
		cp := cachedpiece.New(p, cache, c.ReadSize, peerID)
		n, err := cp.ReadAt(buf, int64(off))
		base := int64(pi)*int64(l.PieceLength) + int64(off)
		if err != nil {
			return core.Failf("read %d: piece %d ReadAt(off %d, len %d) with cache block %d: error %v from an in-memory store", ri, pi, off, ln, c.ReadSize, err)
		}
		if n != int(ln) {
			return core.Failf("read %d: piece %d ReadAt(off %d, len %d) with cache block %d returned %d bytes and no error (short success)", ri, pi, off, ln, c.ReadSize, n)
		}
		if !bytes.Equal(buf, F[base:base+int64(ln)]) {
			return core.Failf("read %d: piece %d ReadAt(off %d, len %d) with cache block %d returned wrong bytes", ri, pi, off, ln, c.ReadSize)
		}
		if off%model.BlockSize != 0 {
			lab["unaligned-16k"] = true
		}
		if int64(off)/c.ReadSize != int64(off+ln-1)/c.ReadSize {
			lab["crosses-cache-block"] = true
		}
		if len(p.Data) > 1 {
			lab["multi-section-piece"] = true
		}
		if c.CacheSize < c.ReadSize {
			lab["uncacheable"] = true
		}
		if c.TTLms == 1 && ri%4 == 3 {
			time.Sleep(2 * time.Millisecond) // let entries expire between reads
			lab["ttl-expiry"] = true
		}
	}
	for k := range lab {
		res.Labels = append(res.Labels, k)
	}
	res.Nontrivial = lab["unaligned-16k"] || lab["crosses-cache-block"] || lab["multi-section-piece"]
	return res
}

func TestCachedPiece(t *testing.T) { core.Run(t, "c03.cachedpiece", genCP, runCP) }
