package model

import (
	"crypto/sha1"
	"strconv"
	"strings"

	"pgregory.net/rapid"
)

const BlockSize = 16384

// FileSpec is one entry of a generated torrent.
type FileSpec struct {
	Path   []string `json:"path"`
	Length int64    `json:"len"`
	Pad    int      `json:"pad,omitempty"` // 0 data file, 1 BEP 47 attr "p", 2 BitComet "_____padding_file" name
}

// Layout is a generated torrent: the file vector, the piece length and a content seed.
type Layout struct {
	Name        string     `json:"name"`
	PieceLength uint32     `json:"pl"`
	Single      bool       `json:"single,omitempty"` // single-file mode (then len(Files)==1, Pad==0)
	Files       []FileSpec `json:"files"`
	Seed        uint64     `json:"seed"`
	Private     bool       `json:"private,omitempty"`
}

func (l *Layout) Total() int64 {
	var n int64
	for _, f := range l.Files {
		n += f.Length
	}
	return n
}

func (l *Layout) NumPieces() int {
	pl := int64(l.PieceLength)
	return int((l.Total() + pl - 1) / pl)
}

// PieceLen is the length of piece i.
func (l *Layout) PieceLen(i int) int {
	n := l.NumPieces()
	if i < n-1 {
		return int(l.PieceLength)
	}
	return int(l.Total() - int64(n-1)*int64(l.PieceLength))
}

type xorshift uint64

func (x *xorshift) next() uint64 {
	v := uint64(*x)
	v ^= v << 13
	v ^= v >> 7
	v ^= v << 17
	*x = xorshift(v)
	return v
}

// Flat returns F: the concatenation of all files in order, padding files as zeros, data bytes from the
// seeded stream (never zero, so that a data byte is distinguishable from padding).
func (l *Layout) Flat() []byte {
	out := make([]byte, 0, l.Total())
	x := xorshift(l.Seed*2654435761 + 0x9E3779B97F4A7C15)
	for _, f := range l.Files {
		if f.Pad != 0 {
			out = append(out, make([]byte, f.Length)...)
			continue
		}
		for i := int64(0); i < f.Length; i++ {
			b := byte(x.next() >> 32)
			if b == 0 {
				b = 0xA5
			}
			out = append(out, b)
		}
	}
	return out
}

// PadMask returns, for every byte position of F, whether it belongs to a padding file.
func (l *Layout) PadMask() []bool {
	m := make([]bool, 0, l.Total())
	for _, f := range l.Files {
		for i := int64(0); i < f.Length; i++ {
			m = append(m, f.Pad != 0)
		}
	}
	return m
}

// FileOffsets returns the start offset in F of each file.
func (l *Layout) FileOffsets() []int64 {
	o := make([]int64, len(l.Files))
	var n int64
	for i, f := range l.Files {
		o[i] = n
		n += f.Length
	}
	return o
}

// PiecesString is the concatenated SHA-1 of each piece of F.
func (l *Layout) PiecesString(F []byte) []byte {
	var out []byte
	pl := int(l.PieceLength)
	for off := 0; off < len(F); off += pl {
		end := min(off+pl, len(F))
		h := sha1.Sum(F[off:end])
		out = append(out, h[:]...)
	}
	return out
}

// InfoDict returns the info dictionary as a map ready for Benc.
func (l *Layout) InfoDict(F []byte) map[string]any {
	d := map[string]any{
		"name":         l.Name,
		"piece length": int64(l.PieceLength),
		"pieces":       l.PiecesString(F),
	}
	if l.Private {
		d["private"] = int64(1)
	}
	if l.Single {
		d["length"] = l.Files[0].Length
		return d
	}
	var files []any
	for _, f := range l.Files {
		fd := map[string]any{"length": f.Length, "path": f.Path}
		if f.Pad == 1 {
			fd["attr"] = "p"
		}
		files = append(files, fd)
	}
	d["files"] = files
	return d
}

func (l *Layout) InfoBytes(F []byte) []byte { return Benc(l.InfoDict(F)) }

// InfoHash of the info dictionary.
func (l *Layout) InfoHash(F []byte) [20]byte { return sha1.Sum(l.InfoBytes(F)) }

// Metainfo returns a complete .torrent file.
func (l *Layout) Metainfo(F []byte, announce [][]string, urlList []string) []byte {
	d := map[string]any{"info": Raw(l.InfoBytes(F))}
	if len(announce) > 0 {
		d["announce"] = announce[0][0]
		var tiers []any
		for _, t := range announce {
			tiers = append(tiers, t)
		}
		d["announce-list"] = tiers
	}
	if len(urlList) > 0 {
		d["url-list"] = urlList
	}
	return Benc(d)
}

// ExpectedPath is the relative path at which rain is expected to store file i (name/path... joined).
func (l *Layout) ExpectedPath(i int) string {
	if l.Single {
		return l.Name
	}
	return l.Name + "/" + strings.Join(l.Files[i].Path, "/")
}

// Labels classifies the layout by the coincidences that the property text singles out.
func (l *Layout) Labels() []string {
	var out []string
	pl := int64(l.PieceLength)
	add := func(s string) {
		for _, o := range out {
			if o == s {
				return
			}
		}
		out = append(out, s)
	}
	if len(l.Files) >= 2 {
		add("multi")
	}
	if pl%BlockSize != 0 {
		add("pl-not-16k-multiple")
	}
	if l.Total()%pl != 0 {
		add("short-last-piece")
	}
	var off int64
	for _, f := range l.Files {
		if f.Length == 0 {
			add("zero-length-file")
		}
		if f.Pad != 0 && f.Length > 0 {
			add("padding")
			if off%pl == 0 {
				add("pad-at-piece-start")
			}
			if (off%pl)%BlockSize == 0 && off%pl != 0 {
				add("pad-at-block-start")
			}
			if off%pl == 0 && f.Length >= pl {
				add("pad-whole-piece")
			}
			if off == 0 {
				add("pad-leading")
			}
			if off+f.Length == l.Total() {
				add("pad-trailing")
			}
		}
		off += f.Length
		if f.Length > 0 && off%pl == 0 {
			add("file-end-at-piece-end")
		} else if f.Length > 0 && (off%pl)%BlockSize == 0 {
			add("file-end-at-block-end")
		}
	}
	// adjacent padding files
	for i := 1; i < len(l.Files); i++ {
		if l.Files[i].Pad != 0 && l.Files[i-1].Pad != 0 && l.Files[i].Length > 0 && l.Files[i-1].Length > 0 {
			add("pad-adjacent")
		}
	}
	return out
}

// HasAllPaddingPiece reports whether some piece consists only of padding bytes.
func (l *Layout) HasAllPaddingPiece() bool {
	m := l.PadMask()
	pl := int(l.PieceLength)
	for off := 0; off < len(m); off += pl {
		all := true
		for j := off; j < min(off+pl, len(m)); j++ {
			if !m[j] {
				all = false
				break
			}
		}
		if all {
			return true
		}
	}
	return false
}

// HasPadAtBlockStart reports whether a non-empty padding file starts exactly where a 16 KiB block of its
// piece starts, with data bytes of the same piece before it or after it.
func (l *Layout) HasPadAtBlockStart() bool {
	pl := int64(l.PieceLength)
	var off int64
	for _, f := range l.Files {
		if f.Pad != 0 && f.Length > 0 && (off%pl)%BlockSize == 0 {
			return true
		}
		off += f.Length
	}
	return false
}

// LayoutOpts bounds the generator.
type LayoutOpts struct {
	MaxTotal  int64 // default 1 MiB
	MaxPieces int   // default 256
	MaxFiles  int   // default 8
	NoPadding bool
	BigPieces bool // only piece lengths >= 16 KiB (system-level cases where tiny pieces would explode the piece count)
}

var smallPL = []uint32{1, 2, 3, 5, 7, 16, 17, 64, 1000}
var bigPL = []uint32{16383, 16384, 16385, 20000, 32768, 32769, 40000, 49152, 65536, 81920, 131072}

// GenLayout draws a layout. All randomness comes from rapid.
func GenLayout(t *rapid.T, o LayoutOpts) Layout {
	if o.MaxTotal == 0 {
		o.MaxTotal = 1 << 20
	}
	if o.MaxPieces == 0 {
		o.MaxPieces = 256
	}
	if o.MaxFiles == 0 {
		o.MaxFiles = 8
	}
	var pl uint32
	switch k := rapid.IntRange(0, 9).Draw(t, "plClass"); {
	case k <= 2 && !o.BigPieces:
		pl = rapid.SampledFrom(smallPL).Draw(t, "pl")
	case k <= 7:
		pl = rapid.SampledFrom(bigPL).Draw(t, "pl")
	default:
		lo := 1
		if o.BigPieces {
			lo = 16384
		}
		pl = uint32(rapid.IntRange(lo, 70000).Draw(t, "pl"))
	}
	maxTotal := min(o.MaxTotal, int64(o.MaxPieces)*int64(pl))
	l := Layout{PieceLength: pl, Seed: rapid.Uint64Range(1, 1<<40).Draw(t, "seed")}
	l.Name = rapid.SampledFrom([]string{"t", "tor rent", "名前", "a.b"}).Draw(t, "name")
	if rapid.IntRange(0, 5).Draw(t, "single") == 0 {
		l.Single = true
		l.Files = []FileSpec{{Path: []string{l.Name}, Length: genLen(t, int64(pl), maxTotal, 1)}}
		if l.Files[0].Length == 0 {
			l.Files[0].Length = 1
		}
		return l
	}
	nf := rapid.IntRange(1, o.MaxFiles).Draw(t, "nfiles")
	alignStyle := !o.NoPadding && rapid.IntRange(0, 3).Draw(t, "alignStyle") == 0
	var total int64
	for i := 0; i < nf && total < maxTotal; i++ {
		isPad := !o.NoPadding && !alignStyle && rapid.IntRange(0, 3).Draw(t, "isPad") == 0
		ln := genLen(t, int64(pl), maxTotal-total, nf)
		f := FileSpec{Length: ln}
		if isPad {
			f.Pad = rapid.IntRange(1, 2).Draw(t, "padKind")
			if rapid.IntRange(0, 3).Draw(t, "padAlign") == 0 && total%int64(pl) != 0 {
				// pad exactly to the next piece boundary
				f.Length = min(int64(pl)-total%int64(pl), maxTotal-total)
			}
		}
		f.Path = genPath(t, i, f.Pad, f.Length)
		l.Files = append(l.Files, f)
		total += f.Length
		if alignStyle && i < nf-1 && total%int64(pl) != 0 && total < maxTotal {
			padLen := min(int64(pl)-total%int64(pl), maxTotal-total)
			kind := rapid.IntRange(1, 2).Draw(t, "padKind")
			l.Files = append(l.Files, FileSpec{Path: genPath(t, 100+i, kind, padLen), Length: padLen, Pad: kind})
			total += padLen
		}
	}
	// at least one data byte overall
	if total == 0 {
		l.Files = append(l.Files, FileSpec{Path: []string{"last"}, Length: 1})
	}
	return l
}

func genPath(t *rapid.T, i int, pad int, ln int64) []string {
	switch pad {
	case 1:
		if rapid.Bool().Draw(t, "bep47path") {
			return []string{".pad", strconv.FormatInt(ln, 10)} // BEP 47 recommended, may repeat
		}
		return []string{"pad" + strconv.Itoa(i)}
	case 2:
		return []string{"_____padding_file_" + strconv.Itoa(i) + "_if you see this file, please update to BitComet 0.85 or above____"}
	}
	name := "f" + strconv.Itoa(i)
	if rapid.IntRange(0, 3).Draw(t, "nested") == 0 {
		return []string{"d" + strconv.Itoa(i%2), name}
	}
	return []string{name}
}

// genLen draws a file length biased to the boundaries of pieces and blocks.
func genLen(t *rapid.T, pl, room int64, nf int) int64 {
	var v int64
	switch rapid.IntRange(0, 13).Draw(t, "lenClass") {
	case 0:
		v = 0
	case 1:
		v = 1
	case 2:
		v = BlockSize - 1
	case 3:
		v = BlockSize
	case 4:
		v = BlockSize + 1
	case 5:
		v = pl - 1
	case 6:
		v = pl
	case 7:
		v = pl + 1
	case 8:
		v = pl * int64(rapid.IntRange(1, 4).Draw(t, "k"))
	case 9:
		v = pl*int64(rapid.IntRange(0, 3).Draw(t, "k")) + BlockSize*int64(rapid.IntRange(0, 3).Draw(t, "j"))
	case 10:
		v = int64(rapid.IntRange(0, 64).Draw(t, "small"))
	default:
		hi := min(room, 4*pl+3*BlockSize)
		if hi < 0 {
			hi = 0
		}
		v = rapid.Int64Range(0, hi).Draw(t, "rnd")
	}
	if v < 0 {
		v = 0
	}
	if v > room {
		v = room
	}
	return v
}
