// Package model holds the independent ground truth used by the oracles: a bencode codec written from the
// spec, the torrent layout generator and its flat byte array F. Nothing here calls into rain.
package model

import (
	"errors"
	"fmt"
	"sort"
	"strconv"
)

// Benc encodes int, int64, uint32, string, []byte, []any, map[string]any, Raw.
type Raw []byte

// OrderedDict lets a test emit keys in a chosen (possibly unsorted / duplicated) order.
type OrderedDict []KV
type KV struct {
	K string
	V any
}

func Benc(v any) []byte { return appendBenc(nil, v) }

func appendBenc(b []byte, v any) []byte {
	switch x := v.(type) {
	case int:
		return append(append(append(b, 'i'), strconv.FormatInt(int64(x), 10)...), 'e')
	case int64:
		return append(append(append(b, 'i'), strconv.FormatInt(x, 10)...), 'e')
	case uint32:
		return append(append(append(b, 'i'), strconv.FormatInt(int64(x), 10)...), 'e')
	case uint64:
		return append(append(append(b, 'i'), strconv.FormatUint(x, 10)...), 'e')
	case string:
		return append(append(append(b, strconv.Itoa(len(x))...), ':'), x...)
	case []byte:
		return append(append(append(b, strconv.Itoa(len(x))...), ':'), x...)
	case Raw:
		return append(b, x...)
	case []any:
		b = append(b, 'l')
		for _, e := range x {
			b = appendBenc(b, e)
		}
		return append(b, 'e')
	case []string:
		b = append(b, 'l')
		for _, e := range x {
			b = appendBenc(b, e)
		}
		return append(b, 'e')
	case map[string]any:
		keys := make([]string, 0, len(x))
		for k := range x {
			keys = append(keys, k)
		}
		sort.Strings(keys)
		b = append(b, 'd')
		for _, k := range keys {
			b = appendBenc(b, k)
			b = appendBenc(b, x[k])
		}
		return append(b, 'e')
	case OrderedDict:
		b = append(b, 'd')
		for _, kv := range x {
			b = appendBenc(b, kv.K)
			b = appendBenc(b, kv.V)
		}
		return append(b, 'e')
	default:
		panic(fmt.Sprintf("benc: unsupported %T", v))
	}
}

// Bdecode decodes one bencoded value from b and returns it with the number of bytes consumed.
// ints -> int64, strings -> string, lists -> []any, dicts -> map[string]any.
func Bdecode(b []byte) (any, int, error) { return bdec(b, 0, 0) }

var errBenc = errors.New("bdecode: malformed")

func bdec(b []byte, i int, depth int) (any, int, error) {
	if i >= len(b) || depth > 64 {
		return nil, i, errBenc
	}
	switch c := b[i]; {
	case c == 'i':
		j := i + 1
		for j < len(b) && b[j] != 'e' {
			j++
		}
		if j >= len(b) {
			return nil, i, errBenc
		}
		n, err := strconv.ParseInt(string(b[i+1:j]), 10, 64)
		if err != nil {
			return nil, i, errBenc
		}
		return n, j + 1, nil
	case c >= '0' && c <= '9':
		j := i
		for j < len(b) && b[j] != ':' {
			j++
		}
		if j >= len(b) {
			return nil, i, errBenc
		}
		n, err := strconv.Atoi(string(b[i:j]))
		if err != nil || n < 0 || n > len(b)-(j+1) { // not j+1+n > len(b): that sum overflows for hostile lengths
			return nil, i, errBenc
		}
		return string(b[j+1 : j+1+n]), j + 1 + n, nil
	case c == 'l':
		var l []any
		i++
		for {
			if i >= len(b) {
				return nil, i, errBenc
			}
			if b[i] == 'e' {
				return l, i + 1, nil
			}
			v, n, err := bdec(b, i, depth+1)
			if err != nil {
				return nil, i, err
			}
			l = append(l, v)
			i = n
		}
	case c == 'd':
		d := map[string]any{}
		i++
		for {
			if i >= len(b) {
				return nil, i, errBenc
			}
			if b[i] == 'e' {
				return d, i + 1, nil
			}
			k, n, err := bdec(b, i, depth+1)
			if err != nil {
				return nil, i, err
			}
			ks, ok := k.(string)
			if !ok {
				return nil, i, errBenc
			}
			v, n2, err := bdec(b, n, depth+1)
			if err != nil {
				return nil, i, err
			}
			d[ks] = v
			i = n2
		}
	}
	return nil, i, errBenc
}
