package c07

import (
	"bytes"
	"fmt"
	"os"
	"path/filepath"
	"sort"
	"strings"
	"testing"

	"github.com/cenkalti/rain/v2/internal/allocator"
	"github.com/cenkalti/rain/v2/internal/metainfo"
	"github.com/cenkalti/rain/v2/internal/piece"
	"github.com/cenkalti/rain/v2/internal/storage/filestorage"
	"github.com/cenkalti/rain/v2/verifharness/core"
	"github.com/cenkalti/rain/v2/verifharness/model"
	"pgregory.net/rapid"
)

// PathCase: a torrent whose name and path components come from a hostile alphabet.
type PathCase struct {
	Name     []byte     `json:"name"`
	NameUTF8 []byte     `json:"name_utf8,omitempty"`
	Single   bool       `json:"single,omitempty"`
	Files    []PathFile `json:"files"`
	UTF8     bool       `json:"utf8"`
	Pad      bool       `json:"pad"`
}

type PathFile struct {
	Path     [][]byte `json:"path"`
	PathUTF8 [][]byte `json:"path_utf8,omitempty"`
	Len      int64    `json:"len"`
	PadAttr  bool     `json:"pad,omitempty"`
}

var hostile = []string{"..", ".", "", "/", "a/b", "../x", "../../x", "/etc/passwd", "/", " ..", ".. ", " .. ", "..\x00", "\x00", "a\x00b", "..\\x", "\\..\\", "...", "....",
	"\xff\xfe", "a\xffb", "..\xff", "\xc0\xae\xc0\xae", "․․", "．．", "．．", "a", "b", "A", "a ", "f.txt", "d", "x/../..", "~", "$HOME", "-rf", "con", "_____padding_file_0",
	strings.Repeat("n", 255), strings.Repeat("n", 256), strings.Repeat("n", 300), strings.Repeat("n", 300) + ".ext", strings.Repeat("n", 250) + "." + strings.Repeat("e", 300),
	strings.Repeat("é", 128), strings.Repeat("é", 127) + "ab", strings.Repeat("n", 254) + "é", strings.Repeat("n", 300) + "A", strings.Repeat("n", 300) + "B"}

func genComp(t *rapid.T, label string) []byte {
	switch rapid.IntRange(0, 9).Draw(t, label+"Class") {
	case 0, 1:
		return []byte(rapid.SampledFrom([]string{"a", "b", "c", "f.txt", "dir"}).Draw(t, label))
	case 2:
		return rapid.SliceOfN(rapid.Byte(), 0, 6).Draw(t, label)
	case 3:
		return []byte(rapid.StringMatching(`[./ \\a]{0,6}`).Draw(t, label))
	default:
		return []byte(rapid.SampledFrom(hostile).Draw(t, label))
	}
}

func genPath(t *rapid.T) PathCase {
	c := PathCase{Name: genComp(t, "name"), UTF8: rapid.Bool().Draw(t, "utf8"), Pad: rapid.Bool().Draw(t, "pad")}
	if rapid.IntRange(0, 3).Draw(t, "hasNameUTF8") == 0 {
		c.NameUTF8 = genComp(t, "nameu")
	}
	if rapid.IntRange(0, 4).Draw(t, "single") == 0 {
		c.Single = true
		c.Files = []PathFile{{Len: int64(rapid.IntRange(1, 40).Draw(t, "len"))}}
		return c
	}
	n := rapid.IntRange(1, 5).Draw(t, "nfiles")
	for i := 0; i < n; i++ {
		f := PathFile{Len: int64(rapid.IntRange(0, 40).Draw(t, "len"))}
		k := rapid.IntRange(0, 3).Draw(t, "ncomp")
		for j := 0; j < k; j++ {
			f.Path = append(f.Path, genComp(t, "comp"))
		}
		if rapid.IntRange(0, 4).Draw(t, "hasPathUTF8") == 0 {
			k := rapid.IntRange(1, 3).Draw(t, "ncompu")
			for j := 0; j < k; j++ {
				f.PathUTF8 = append(f.PathUTF8, genComp(t, "compu"))
			}
		}
		f.PadAttr = rapid.IntRange(0, 5).Draw(t, "padattr") == 0
		c.Files = append(c.Files, f)
	}
	return c
}

const pieceLen = 32

func (c *PathCase) total() int64 {
	var n int64
	for _, f := range c.Files {
		n += f.Len
	}
	return n
}

func (c *PathCase) content() []byte {
	b := make([]byte, c.total())
	for i := range b {
		b[i] = byte(i%251) + 1
	}
	// padding bytes are zeros
	off := int64(0)
	for _, f := range c.Files {
		if f.PadAttr && c.Pad {
			for j := off; j < off+f.Len; j++ {
				b[j] = 0
			}
		}
		off += f.Len
	}
	return b
}

func (c *PathCase) infoBytes() []byte {
	F := c.content()
	l := model.Layout{PieceLength: pieceLen}
	d := map[string]any{"name": c.Name, "piece length": int64(pieceLen), "pieces": l.PiecesString(F)}
	if c.NameUTF8 != nil {
		d["name.utf-8"] = c.NameUTF8
	}
	if c.Single {
		d["length"] = c.Files[0].Len
		return model.Benc(d)
	}
	var files []any
	for _, f := range c.Files {
		var p []any
		for _, comp := range f.Path {
			p = append(p, comp)
		}
		fd := map[string]any{"length": f.Len, "path": p}
		if f.PathUTF8 != nil {
			var pu []any
			for _, comp := range f.PathUTF8 {
				pu = append(pu, comp)
			}
			fd["path.utf-8"] = pu
		}
		if f.PadAttr {
			fd["attr"] = "p"
		}
		files = append(files, fd)
	}
	d["files"] = files
	return model.Benc(d)
}

func (c *PathCase) hostileCount() int {
	n := 0
	isH := func(b []byte) bool {
		s := string(b)
		return strings.Contains(s, "..") || strings.ContainsAny(s, "/\\\x00") || s == "" || s == "." || len(s) > 200 || !validUTF8(s)
	}
	if isH(c.Name) || (c.NameUTF8 != nil && isH(c.NameUTF8)) {
		n++
	}
	for _, f := range c.Files {
		for _, p := range f.Path {
			if isH(p) {
				n++
			}
		}
		for _, p := range f.PathUTF8 {
			if isH(p) {
				n++
			}
		}
	}
	return n
}

func validUTF8(s string) bool { return strings.ToValidUTF8(s, "\x00x") == s }

// resolve mirrors what the real file storage does with a name: Join(root, Clean(name)).
func resolve(root, name string) string { return filepath.Join(root, filepath.Clean(name)) }

// insideOrHarmless: strictly inside root, or root itself / an ancestor of root (a directory, which cannot be opened as a file).
func classify(root, p string) string {
	if strings.HasPrefix(p, root+"/") {
		return "inside"
	}
	if p == root || strings.HasPrefix(root, strings.TrimSuffix(p, "/")+"/") || p == "/" {
		return "ancestor"
	}
	return "outside"
}

func runPathsLogic(c PathCase) core.Result {
	res := core.Result{}
	info, err := metainfo.NewInfo(c.infoBytes(), c.UTF8, c.Pad)
	if err != nil {
		res.Labels = []string{"rejected"}
		return res
	}
	res.Labels = []string{"accepted"}
	res.Nontrivial = c.hostileCount() > 0
	root := "/sandbox/a/b/root"
	seen := map[string]int{}
	for i, f := range info.Files {
		if f.Padding {
			continue
		}
		p := resolve(root, f.Path)
		switch classify(root, p) {
		case "outside":
			return core.Failf("file %d: accepted path %q resolves to %q, outside the storage root %q", i, f.Path, p, root)
		case "ancestor":
			res.Labels = append(res.Labels, "resolves-to-directory")
		}
		if j, ok := seen[p]; ok {
			return core.Failf("files %d and %d both resolve to %q", j, i, p)
		}
		seen[p] = i
	}
	return res
}

func TestPaths(t *testing.T) { core.Run(t, "c07.paths", genPath, runPathsLogic) }

// ---- end to end on a real directory tree ----

func snapshotTree(root, skip string) map[string]string {
	out := map[string]string{}
	_ = filepath.Walk(root, func(p string, fi os.FileInfo, err error) error {
		if err != nil {
			return nil
		}
		if p == skip {
			return filepath.SkipDir
		}
		if fi.IsDir() {
			out[p] = "dir"
			return nil
		}
		b, _ := os.ReadFile(p)
		out[p] = fmt.Sprintf("file:%d:%x", fi.Size(), b)
		return nil
	})
	return out
}

func diffTrees(a, b map[string]string) string {
	var d []string
	for k, v := range a {
		if w, ok := b[k]; !ok {
			d = append(d, "removed "+k)
		} else if w != v {
			d = append(d, "changed "+k)
		}
	}
	for k := range b {
		if _, ok := a[k]; !ok {
			d = append(d, "created "+k)
		}
	}
	sort.Strings(d)
	return strings.Join(d, "; ")
}

func runPathsFS(c PathCase) core.Result {
	res := core.Result{}
	info, err := metainfo.NewInfo(c.infoBytes(), c.UTF8, c.Pad)
	if err != nil {
		res.Labels = []string{"rejected"}
		return res
	}
	res.Labels = []string{"accepted"}
	res.Nontrivial = c.hostileCount() > 0
	base := "/dev/shm"
	if _, err := os.Stat(base); err != nil {
		base = os.TempDir()
	}
	top, err := os.MkdirTemp(base, "verif-c07-")
	if err != nil {
		panic(err)
	}
	defer os.RemoveAll(top)
	root := filepath.Join(top, "a", "b", "root")
	if err := os.MkdirAll(root, 0o755); err != nil {
		panic(err)
	}
	for _, d := range []string{top, filepath.Join(top, "a"), filepath.Join(top, "a", "b")} {
		for _, n := range []string{"canary", "x", "f.txt", "a", "b"} {
			p := filepath.Join(d, n)
			if _, err := os.Lstat(p); err != nil {
				_ = os.WriteFile(p, []byte("canary:"+p), 0o644)
			}
		}
	}
	before := snapshotTree(top, root)
	sto, err := filestorage.New(root, 0o755)
	if err != nil {
		panic(err)
	}
	a := allocator.New()
	progressC := make(chan allocator.Progress)
	resultC := make(chan *allocator.Allocator, 1)
	go func() {
		for range progressC {
		}
	}()
	a.Run(info, sto, progressC, resultC)
	close(progressC)
	if a.Error == nil {
		res.Labels = append(res.Labels, "allocated")
		F := c.content()
		pieces := piece.NewPieces(info, a.Files)
		for i := range pieces {
			off := int64(i) * pieceLen
			_, _ = pieces[i].Data.Write(F[off : off+int64(pieces[i].Length)])
		}
		// every data file reads back its own bytes (distinct files did not alias)
		var off int64
		for i, f := range info.Files {
			if !f.Padding && f.Length > 0 {
				buf := make([]byte, f.Length)
				if _, err := a.Files[i].Storage.ReadAt(buf, 0); err != nil || !bytes.Equal(buf, F[off:off+f.Length]) {
					defer closeAll(a)
					return core.Failf("file %d %q does not read back its own content after all writes (aliased with another file?) err=%v", i, f.Path, err)
				}
			}
			off += f.Length
		}
		closeAll(a)
	} else {
		res.Labels = append(res.Labels, "alloc-error")
	}
	after := snapshotTree(top, root)
	if d := diffTrees(before, after); d != "" {
		return core.Failf("tree outside the storage root changed: %s", strings.ReplaceAll(d, top, "<T>"))
	}
	return res
}

func closeAll(a *allocator.Allocator) {
	for _, f := range a.Files {
		if f.Storage != nil {
			f.Storage.Close()
		}
	}
}

func TestPathsFS(t *testing.T) { core.Run(t, "c07.fs", genPath, runPathsFS) }
