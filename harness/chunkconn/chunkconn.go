// Package chunkconn provides an in-memory duplex net.Conn pair whose reads are fragmented according to a
// schedule, so "however the transport fragments the stream" becomes an explicit generated input.
package chunkconn

import (
	"errors"
	"io"
	"net"
	"os"
	"sync"
	"time"
)

type half struct {
	mu       sync.Mutex
	cond     *sync.Cond
	buf      []byte
	closed   bool  // writer closed: readers get EOF after draining
	rclosed  bool  // reader closed: writers get an error
	sched    []int // sizes of successive reads (cycled); 0 or empty = unlimited
	si       int
	deadline time.Time
	Written  int // total bytes accepted from the writer
	FailAt   int // if >0: the write that would take Written past FailAt is cut short and fails (partial write)
}

func newHalf(sched []int) *half {
	h := &half{sched: sched}
	h.cond = sync.NewCond(&h.mu)
	return h
}

type timeoutErr struct{}

func (timeoutErr) Error() string   { return "i/o timeout" }
func (timeoutErr) Timeout() bool   { return true }
func (timeoutErr) Temporary() bool { return true }

func (h *half) read(p []byte) (int, error) {
	h.mu.Lock()
	defer h.mu.Unlock()
	for len(h.buf) == 0 {
		if h.closed || h.rclosed {
			return 0, io.EOF
		}
		if !h.deadline.IsZero() {
			d := time.Until(h.deadline)
			if d <= 0 {
				return 0, &net.OpError{Op: "read", Net: "chunk", Err: os.ErrDeadlineExceeded}
			}
			t := time.AfterFunc(d, func() { h.mu.Lock(); h.cond.Broadcast(); h.mu.Unlock() })
			h.cond.Wait()
			t.Stop()
			continue
		}
		h.cond.Wait()
	}
	n := len(p)
	if len(h.sched) > 0 {
		if s := h.sched[h.si%len(h.sched)]; s > 0 && s < n {
			n = s
		}
		h.si++
	}
	n = copy(p[:n], h.buf)
	h.buf = h.buf[n:]
	return n, nil
}

var ErrInjected = errors.New("chunkconn: injected write error")

func (h *half) write(p []byte) (int, error) {
	h.mu.Lock()
	defer h.mu.Unlock()
	if h.closed || h.rclosed {
		return 0, &net.OpError{Op: "write", Net: "chunk", Err: io.ErrClosedPipe}
	}
	if h.FailAt > 0 && h.Written+len(p) > h.FailAt {
		n := h.FailAt - h.Written
		if n < 0 {
			n = 0
		}
		h.buf = append(h.buf, p[:n]...)
		h.Written += n
		h.closed = true
		h.cond.Broadcast()
		return n, &net.OpError{Op: "write", Net: "chunk", Err: ErrInjected}
	}
	h.buf = append(h.buf, p...)
	h.Written += len(p)
	h.cond.Broadcast()
	return len(p), nil
}

// Conn is one end of the pair.
type Conn struct {
	in, out *half
	name    string
}

// Pair returns two connected ends. aReads/bReads are the read-size schedules of each end.
func Pair(aReads, bReads []int) (*Conn, *Conn) {
	ab, ba := newHalf(bReads), newHalf(aReads) // ab: a writes, b reads
	return &Conn{in: ba, out: ab, name: "a"}, &Conn{in: ab, out: ba, name: "b"}
}

// FailWritesAfter makes this end's writes fail once n bytes in total have been written (the write that
// crosses n is partial).
func (c *Conn) FailWritesAfter(n int) { c.out.mu.Lock(); c.out.FailAt = n; c.out.mu.Unlock() }

// BytesWritten returns the number of bytes this end has successfully written.
func (c *Conn) BytesWritten() int { c.out.mu.Lock(); defer c.out.mu.Unlock(); return c.out.Written }

func (c *Conn) Read(p []byte) (int, error)  { return c.in.read(p) }
func (c *Conn) Write(p []byte) (int, error) { return c.out.write(p) }
func (c *Conn) Close() error {
	c.out.mu.Lock()
	c.out.closed = true
	c.out.cond.Broadcast()
	c.out.mu.Unlock()
	c.in.mu.Lock()
	c.in.rclosed = true
	c.in.cond.Broadcast()
	c.in.mu.Unlock()
	return nil
}

type addr string

func (a addr) Network() string { return "chunk" }
func (a addr) String() string  { return string(a) }

func (c *Conn) LocalAddr() net.Addr  { return &net.TCPAddr{IP: net.IPv4(127, 0, 0, 1), Port: 1000} }
func (c *Conn) RemoteAddr() net.Addr { return &net.TCPAddr{IP: net.IPv4(127, 0, 0, 2), Port: 2000} }
func (c *Conn) SetDeadline(t time.Time) error {
	_ = c.SetReadDeadline(t)
	return nil
}
func (c *Conn) SetReadDeadline(t time.Time) error {
	c.in.mu.Lock()
	c.in.deadline = t
	c.in.cond.Broadcast()
	c.in.mu.Unlock()
	return nil
}
func (c *Conn) SetWriteDeadline(t time.Time) error { return nil }
