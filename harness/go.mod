module github.com/cenkalti/rain/v2/verifharness

go 1.25.0

require (
	github.com/cenkalti/rain/v2 v2.0.0
	go.etcd.io/bbolt v1.5.0
	pgregory.net/rapid v1.3.0
)

require (
	github.com/cenkalti/backoff/v7 v7.0.0 // indirect
	github.com/cenkalti/log v1.0.0 // indirect
	github.com/gofrs/uuid v4.4.0+incompatible // indirect
	github.com/golang/groupcache v0.0.0-20200121045136-8c9f03a8e57e // indirect
	github.com/google/btree v1.1.3 // indirect
	github.com/hashicorp/errwrap v1.1.0 // indirect
	github.com/hashicorp/go-multierror v1.1.1 // indirect
	github.com/jackpal/bencode-go v1.0.0 // indirect
	github.com/juju/ratelimit v1.0.2 // indirect
	github.com/mattn/go-isatty v0.0.12 // indirect
	github.com/nictuku/dht v0.0.0-20201226073453-fd1c1dd3d66a // indirect
	github.com/nictuku/nettools v0.0.0-20150117095333-8867a2107ad3 // indirect
	github.com/powerman/rpc-codec v1.2.2 // indirect
	github.com/rcrowley/go-metrics v0.0.0-20201227073835-cf1acfcdf475 // indirect
	github.com/youtube/vitess v3.0.0-rc.3+incompatible // indirect
	github.com/zeebo/bencode v1.0.0 // indirect
	golang.org/x/sync v0.22.0 // indirect
	golang.org/x/sys v0.47.0 // indirect
)

replace github.com/cenkalti/rain/v2 => /repo
