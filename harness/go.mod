module github.com/cenkalti/rain/v2/verifharness

go 1.25.0

require (
	github.com/cenkalti/rain/v2 v2.0.0
	go.etcd.io/bbolt v1.5.0
	pgregory.net/rapid v1.3.0
)

require (
	github.com/cenkalti/backoff/v7 v7.0.0 // indirect
	github.com/cenkalti/log v1.0.0 // indirect
	github.com/google/btree v1.1.3 // indirect
	github.com/hashicorp/errwrap v1.1.0 // indirect
	github.com/hashicorp/go-multierror v1.1.1 // indirect
	github.com/juju/ratelimit v1.0.2 // indirect
	github.com/mattn/go-isatty v0.0.12 // indirect
	github.com/rcrowley/go-metrics v0.0.0-20201227073835-cf1acfcdf475 // indirect
	github.com/zeebo/bencode v1.0.0 // indirect
	golang.org/x/sync v0.22.0 // indirect
	golang.org/x/sys v0.47.0 // indirect
)

replace github.com/cenkalti/rain/v2 => /repo
