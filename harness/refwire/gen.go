package refwire

import (
	"pgregory.net/rapid"
)

var edgeU32 = []uint32{0, 1, 2, 255, 256, 16383, 16384, 16385, 65535, 65536, 1<<31 - 1, 1 << 31, 1<<32 - 2, 1<<32 - 1}

func GenU32(t *rapid.T, label string) uint32 {
	if rapid.IntRange(0, 2).Draw(t, label+"Edge") == 0 {
		return rapid.SampledFrom(edgeU32).Draw(t, label)
	}
	return rapid.Uint32().Draw(t, label)
}

func genBytes(t *rapid.T, label string, max int) []byte {
	var n int
	switch rapid.IntRange(0, 5).Draw(t, label+"LenClass") {
	case 0:
		n = 0
	case 1:
		n = rapid.IntRange(1, 9).Draw(t, label+"Len")
	case 2:
		n = max
	case 3:
		n = max - rapid.IntRange(0, 3).Draw(t, label+"Len")
	default:
		n = rapid.IntRange(0, max).Draw(t, label+"Len")
	}
	if n < 0 {
		n = 0
	}
	seed := rapid.Byte().Draw(t, label+"Seed")
	b := make([]byte, n)
	for i := range b {
		b[i] = seed + byte(i*7)
	}
	return b
}

// GenOpts restricts the generator.
type GenOpts struct {
	MaxPayload  int  // limit for bitfield / extension payload sizes
	ClientEmits bool // only messages rain itself can emit (no suggest, request length <= 16 KiB, block <= 16 KiB)
	FixedExtIDs bool // ut_metadata id 1, ut_pex id 2 (rain's own ids)
}

var Kinds = []string{"choke", "unchoke", "interested", "notinterested", "have", "bitfield", "request", "piece", "cancel", "port",
	"haveall", "havenone", "reject", "allowedfast", "ext-handshake", "ext-metadata", "ext-pex", "keepalive", "suggest"}

// GenMsg draws one message.
func GenMsg(t *rapid.T, o GenOpts) Msg {
	kinds := Kinds
	if o.ClientEmits {
		kinds = Kinds[:17]
	}
	m := Msg{Kind: rapid.SampledFrom(kinds).Draw(t, "kind")}
	if o.MaxPayload == 0 {
		o.MaxPayload = 8192
	}
	switch m.Kind {
	case "have", "allowedfast", "suggest":
		m.Index = GenU32(t, "index")
	case "bitfield":
		m.Data = genBytes(t, "bits", o.MaxPayload)
	case "request", "cancel", "reject":
		m.Index, m.Begin = GenU32(t, "index"), GenU32(t, "begin")
		if o.ClientEmits {
			m.Length = uint32(rapid.IntRange(1, 16384).Draw(t, "length"))
			if rapid.IntRange(0, 2).Draw(t, "fullBlock") == 0 {
				m.Length = 16384
			}
		} else {
			m.Length = GenU32(t, "length")
		}
	case "piece":
		m.Index, m.Begin = GenU32(t, "index"), GenU32(t, "begin")
		m.Data = genBytes(t, "block", 16384)
		if o.ClientEmits && len(m.Data) == 0 {
			m.Data = []byte{1}
		}
	case "port":
		m.Port = rapid.Uint16().Draw(t, "port")
	case "ext-handshake":
		m.M = map[string]int{}
		for _, k := range rapid.SliceOfNDistinct(rapid.SampledFrom([]string{"ut_metadata", "ut_pex", "lt_donthave", "upload_only", "x", ""}), 0, 4, rapid.ID[string]).Draw(t, "mkeys") {
			m.M[k] = rapid.IntRange(0, 255).Draw(t, "mid")
		}
		m.V = rapid.SampledFrom([]string{"", "Rain 1.0", "µTorrent 3.5", "a:b", "1234567890123456789012345678901234567890"}).Draw(t, "v")
		switch rapid.IntRange(0, 3).Draw(t, "ipKind") {
		case 1:
			m.YourIP = []byte{127, 0, 0, byte(rapid.IntRange(0, 255).Draw(t, "ip4"))}
		case 2:
			m.YourIP = make([]byte, 16)
			m.YourIP[0], m.YourIP[15] = 0x20, byte(rapid.IntRange(0, 255).Draw(t, "ip6"))
		}
		m.MetadataSize = int64(rapid.SampledFrom([]int{0, 0, 1, 16384, 16385, 1 << 20, 1<<31 - 1}).Draw(t, "msize"))
		m.Reqq = int64(rapid.SampledFrom([]int{0, 1, 250, 2000, 1 << 20}).Draw(t, "reqq"))
		m.HasReqq = true
	case "ext-metadata":
		m.ExtID = 1
		if !o.FixedExtIDs {
			m.ExtID = uint8(rapid.IntRange(1, 255).Draw(t, "extid"))
		}
		m.MsgType = int64(rapid.IntRange(0, 2).Draw(t, "msgtype"))
		m.Index = uint32(rapid.SampledFrom([]int{0, 1, 2, 100, 1 << 17}).Draw(t, "mpiece"))
		if m.MsgType == 1 {
			m.Data = genBytes(t, "mdata", 16384)
			m.TotalSize = int64(rapid.SampledFrom([]int{1, 16384, 16385, 100000, 1 << 24}).Draw(t, "total"))
			m.HasTotal = true
		}
	case "ext-pex":
		m.ExtID = 2
		if !o.FixedExtIDs {
			m.ExtID = uint8(rapid.IntRange(1, 255).Draw(t, "extid"))
		}
		m.Added = genBytes(t, "added", min(o.MaxPayload/2, 6*200))
		m.Added = m.Added[:len(m.Added)/6*6]
		m.Dropped = genBytes(t, "dropped", 60)
		m.Dropped = m.Dropped[:len(m.Dropped)/6*6]
	}
	return m
}

// GenSchedule draws a read-size schedule; small values split headers.
func GenSchedule(t *rapid.T, label string) []int {
	switch rapid.IntRange(0, 3).Draw(t, label+"Class") {
	case 0:
		return nil // unlimited
	case 1:
		return []int{1}
	case 2:
		return rapid.SliceOfN(rapid.IntRange(1, 7), 1, 6).Draw(t, label)
	default:
		return rapid.SliceOfN(rapid.SampledFrom([]int{1, 2, 3, 4, 5, 12, 13, 17, 100, 1000, 16384, 16397, 0}), 1, 8).Draw(t, label)
	}
}
