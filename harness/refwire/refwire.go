// Package refwire is an independent codec for the BitTorrent peer wire protocol (BEP 3, 6, 9, 10, 11),
// written from the specifications. It shares no code with rain and is the reference side of the wire oracles
// as well as the transport of every scripted peer.
package refwire

import (
	"encoding/binary"
	"errors"
	"fmt"
	"io"

	"github.com/cenkalti/rain/v2/verifharness/model"
)

// Message ids (BEP 3, BEP 6, BEP 10).
const (
	IDChoke         = 0
	IDUnchoke       = 1
	IDInterested    = 2
	IDNotInterested = 3
	IDHave          = 4
	IDBitfield      = 5
	IDRequest       = 6
	IDPiece         = 7
	IDCancel        = 8
	IDPort          = 9
	IDSuggest       = 13
	IDHaveAll       = 14
	IDHaveNone      = 15
	IDReject        = 16
	IDAllowedFast   = 17
	IDExtended      = 20
)

// Msg is one peer message. Kind selects which fields are meaningful.
type Msg struct {
	Kind   string `json:"k"`
	Index  uint32 `json:"i,omitempty"`
	Begin  uint32 `json:"b,omitempty"`
	Length uint32 `json:"l,omitempty"`
	Port   uint16 `json:"port,omitempty"`
	Data   []byte `json:"d,omitempty"` // bitfield bytes, block data, metadata piece data, raw payload
	// extension protocol
	ExtID        uint8          `json:"ext,omitempty"`     // id byte after 20
	M            map[string]int `json:"m,omitempty"`       // ext handshake
	V            string         `json:"v,omitempty"`       //
	YourIP       []byte         `json:"yourip,omitempty"`  //
	MetadataSize int64          `json:"msize,omitempty"`   //
	Reqq         int64          `json:"reqq,omitempty"`    //
	HasReqq      bool           `json:"hasreqq,omitempty"` //
	MsgType      int64          `json:"mt,omitempty"`      // ut_metadata
	TotalSize    int64          `json:"ts,omitempty"`      //
	HasTotal     bool           `json:"hasts,omitempty"`
	Added        []byte         `json:"added,omitempty"` // ut_pex
	Dropped      []byte         `json:"dropped,omitempty"`
	RawID        uint8          `json:"rawid,omitempty"` // for Kind "raw": message id; Data is the body
}

func u32(v uint32) []byte { return binary.BigEndian.AppendUint32(nil, v) }

func frame(id byte, body ...[]byte) []byte {
	n := 1
	for _, b := range body {
		n += len(b)
	}
	out := binary.BigEndian.AppendUint32(make([]byte, 0, 4+n), uint32(n))
	out = append(out, id)
	for _, b := range body {
		out = append(out, b...)
	}
	return out
}

// Encode returns the complete frame (length prefix included).
func Encode(m Msg) []byte {
	switch m.Kind {
	case "keepalive":
		return []byte{0, 0, 0, 0}
	case "choke":
		return frame(IDChoke)
	case "unchoke":
		return frame(IDUnchoke)
	case "interested":
		return frame(IDInterested)
	case "notinterested":
		return frame(IDNotInterested)
	case "have":
		return frame(IDHave, u32(m.Index))
	case "bitfield":
		return frame(IDBitfield, m.Data)
	case "request":
		return frame(IDRequest, u32(m.Index), u32(m.Begin), u32(m.Length))
	case "piece":
		return frame(IDPiece, u32(m.Index), u32(m.Begin), m.Data)
	case "cancel":
		return frame(IDCancel, u32(m.Index), u32(m.Begin), u32(m.Length))
	case "port":
		return frame(IDPort, binary.BigEndian.AppendUint16(nil, m.Port))
	case "suggest":
		return frame(IDSuggest, u32(m.Index))
	case "haveall":
		return frame(IDHaveAll)
	case "havenone":
		return frame(IDHaveNone)
	case "reject":
		return frame(IDReject, u32(m.Index), u32(m.Begin), u32(m.Length))
	case "allowedfast":
		return frame(IDAllowedFast, u32(m.Index))
	case "ext-handshake":
		d := map[string]any{}
		mm := map[string]any{}
		for k, v := range m.M {
			mm[k] = int64(v)
		}
		d["m"] = mm
		d["v"] = m.V
		if len(m.YourIP) > 0 {
			d["yourip"] = m.YourIP
		}
		if m.MetadataSize != 0 {
			d["metadata_size"] = m.MetadataSize
		}
		if m.HasReqq {
			d["reqq"] = m.Reqq
		}
		return frame(IDExtended, []byte{0}, model.Benc(d))
	case "ext-metadata":
		d := map[string]any{"msg_type": m.MsgType, "piece": int64(m.Index)}
		if m.HasTotal {
			d["total_size"] = m.TotalSize
		}
		return frame(IDExtended, []byte{m.ExtID}, model.Benc(d), m.Data)
	case "ext-pex":
		d := map[string]any{"added": m.Added, "dropped": m.Dropped}
		return frame(IDExtended, []byte{m.ExtID}, model.Benc(d))
	case "ext-raw":
		return frame(IDExtended, []byte{m.ExtID}, m.Data)
	case "raw":
		return frame(m.RawID, m.Data)
	}
	panic("refwire: unknown kind " + m.Kind)
}

var ErrShort = errors.New("refwire: body too short")

// Decode parses one frame body (id + payload, without the length prefix). extMeta/extPex are the extended
// message ids under which the RECEIVER (the side calling Decode) advertised ut_metadata / ut_pex.
func Decode(body []byte, extMeta, extPex uint8) (Msg, error) {
	if len(body) == 0 {
		return Msg{Kind: "keepalive"}, nil
	}
	id, p := body[0], body[1:]
	need := func(n int) error {
		if len(p) != n {
			return fmt.Errorf("refwire: message id %d has body of %d bytes, want %d", id, len(p), n)
		}
		return nil
	}
	be := binary.BigEndian
	switch id {
	case IDChoke:
		return Msg{Kind: "choke"}, need(0)
	case IDUnchoke:
		return Msg{Kind: "unchoke"}, need(0)
	case IDInterested:
		return Msg{Kind: "interested"}, need(0)
	case IDNotInterested:
		return Msg{Kind: "notinterested"}, need(0)
	case IDHaveAll:
		return Msg{Kind: "haveall"}, need(0)
	case IDHaveNone:
		return Msg{Kind: "havenone"}, need(0)
	case IDHave, IDSuggest, IDAllowedFast:
		if err := need(4); err != nil {
			return Msg{}, err
		}
		k := map[byte]string{IDHave: "have", IDSuggest: "suggest", IDAllowedFast: "allowedfast"}[id]
		return Msg{Kind: k, Index: be.Uint32(p)}, nil
	case IDBitfield:
		return Msg{Kind: "bitfield", Data: append([]byte(nil), p...)}, nil
	case IDRequest, IDCancel, IDReject:
		if err := need(12); err != nil {
			return Msg{}, err
		}
		k := map[byte]string{IDRequest: "request", IDCancel: "cancel", IDReject: "reject"}[id]
		return Msg{Kind: k, Index: be.Uint32(p), Begin: be.Uint32(p[4:]), Length: be.Uint32(p[8:])}, nil
	case IDPiece:
		if len(p) < 8 {
			return Msg{}, ErrShort
		}
		return Msg{Kind: "piece", Index: be.Uint32(p), Begin: be.Uint32(p[4:]), Data: append([]byte(nil), p[8:]...)}, nil
	case IDPort:
		if err := need(2); err != nil {
			return Msg{}, err
		}
		return Msg{Kind: "port", Port: be.Uint16(p)}, nil
	case IDExtended:
		if len(p) < 1 {
			return Msg{}, ErrShort
		}
		ext, pl := p[0], p[1:]
		v, n, err := model.Bdecode(pl)
		d, ok := v.(map[string]any)
		if err != nil || !ok {
			return Msg{Kind: "ext-raw", ExtID: ext, Data: append([]byte(nil), pl...)}, nil
		}
		geti := func(k string) (int64, bool) { x, ok := d[k].(int64); return x, ok }
		gets := func(k string) []byte { x, _ := d[k].(string); return []byte(x) }
		switch {
		case ext == 0:
			m := Msg{Kind: "ext-handshake", M: map[string]int{}, V: string(gets("v")), YourIP: gets("yourip")}
			if mm, ok := d["m"].(map[string]any); ok {
				for k, v := range mm {
					if iv, ok := v.(int64); ok {
						m.M[k] = int(iv)
					}
				}
			}
			m.MetadataSize, _ = geti("metadata_size")
			m.Reqq, m.HasReqq = geti("reqq")
			if n != len(pl) {
				return m, fmt.Errorf("refwire: %d trailing bytes after extension handshake dictionary", len(pl)-n)
			}
			return m, nil
		case ext == extMeta && extMeta != 0:
			m := Msg{Kind: "ext-metadata", ExtID: ext, Data: append([]byte(nil), pl[n:]...)}
			m.MsgType, _ = geti("msg_type")
			pc, _ := geti("piece")
			m.Index = uint32(pc)
			m.TotalSize, m.HasTotal = geti("total_size")
			return m, nil
		case ext == extPex && extPex != 0:
			return Msg{Kind: "ext-pex", ExtID: ext, Added: gets("added"), Dropped: gets("dropped")}, nil
		}
		return Msg{Kind: "ext-raw", ExtID: ext, Data: append([]byte(nil), pl...)}, nil
	}
	return Msg{Kind: "raw", RawID: id, Data: append([]byte(nil), p...)}, nil
}

// ReadFrame reads one length-prefixed frame body from r (empty body = keep-alive).
func ReadFrame(r io.Reader, max uint32) ([]byte, error) {
	var lb [4]byte
	if _, err := io.ReadFull(r, lb[:]); err != nil {
		return nil, err
	}
	n := binary.BigEndian.Uint32(lb[:])
	if n > max {
		return nil, fmt.Errorf("refwire: frame of %d bytes exceeds %d", n, max)
	}
	b := make([]byte, n)
	if _, err := io.ReadFull(r, b); err != nil {
		return nil, err
	}
	return b, nil
}

// SplitFrames cuts a byte stream into frame bodies; the remainder (incomplete frame) is returned as rest.
func SplitFrames(b []byte) (frames [][]byte, rest []byte) {
	for len(b) >= 4 {
		n := int(binary.BigEndian.Uint32(b))
		if len(b)-4 < n {
			break
		}
		frames = append(frames, b[4:4+n])
		b = b[4+n:]
	}
	return frames, b
}

// Handshake returns the 68-byte BEP 3 handshake.
func Handshake(reserved [8]byte, infoHash, peerID [20]byte) []byte {
	out := make([]byte, 0, 68)
	out = append(out, 19)
	out = append(out, "BitTorrent protocol"...)
	out = append(out, reserved[:]...)
	out = append(out, infoHash[:]...)
	out = append(out, peerID[:]...)
	return out
}

// ParseHandshake splits a 68-byte handshake.
func ParseHandshake(b []byte) (reserved [8]byte, infoHash, peerID [20]byte, err error) {
	if len(b) != 68 || b[0] != 19 || string(b[1:20]) != "BitTorrent protocol" {
		err = errors.New("refwire: not a BitTorrent handshake")
		return
	}
	copy(reserved[:], b[20:28])
	copy(infoHash[:], b[28:48])
	copy(peerID[:], b[48:68])
	return
}

// Reserved bits: BEP 10 extension protocol = byte 5 & 0x10; BEP 6 fast = byte 7 & 0x04; BEP 5 DHT = byte 7 & 0x01.
func ReservedBits(ext, fast, dht bool) (r [8]byte) {
	if ext {
		r[5] |= 0x10
	}
	if fast {
		r[7] |= 0x04
	}
	if dht {
		r[7] |= 0x01
	}
	return
}
