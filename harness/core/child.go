package core

import (
	"bytes"
	"encoding/json"
	"fmt"
	"os"
	"os/exec"
	"path/filepath"
	"strings"
	"syscall"
	"testing"
	"time"

	"pgregory.net/rapid"
)

// RunChild is Run with process isolation: every case is executed in a fresh child (this test binary re-executed
// with the case in a file). rain's event loops panic the whole process on internal inconsistencies and a hung
// loop cannot be reclaimed, so for session-level units abnormal exit and overrun are observations, not harness errors:
// a child that dies is a violation whose replay file is the case and whose proof is the captured stack.
func RunChild[C any](t *testing.T, unit string, gen func(*rapid.T) C, run func(C) Result, timeout time.Duration) {
	if os.Getenv("VERIF_CHILD_UNIT") == unit {
		childMain(run)
		return
	}
	if os.Getenv("VERIF_CHILD_UNIT") != "" {
		t.Skip("child run is for another unit")
	}
	if _, ok := replayTarget(); ok {
		Run(t, unit, gen, run) // replay in-process: a crash is a failure either way
		return
	}
	testName := t.Name()
	n := 0
	Run(t, unit, gen, func(c C) Result {
		n++
		dir := outDir()
		in := filepath.Join(dir, fmt.Sprintf("child-%s.%s.in.json", unit, shard()))
		out := filepath.Join(dir, fmt.Sprintf("child-%s.%s.out.json", unit, shard()))
		raw, _ := json.Marshal(c)
		if err := os.WriteFile(in, raw, 0o644); err != nil {
			panic(err)
		}
		_ = os.Remove(out)
		cmd := exec.Command(os.Args[0], "-test.run", "^"+testName+"$", "-test.count=1", "-test.timeout=0")
		// TMPDIR: rain writes a goroutine dump to os.TempDir() when it crashes; keep it inside the run's scratch directory
		cmd.Env = append(os.Environ(), "VERIF_CHILD_UNIT="+unit, "VERIF_CHILD_IN="+in, "VERIF_CHILD_OUT="+out, "TMPDIR="+dir)
		var stderr bytes.Buffer
		cmd.Stdout = &stderr
		cmd.Stderr = &stderr
		cmd.SysProcAttr = &syscall.SysProcAttr{Setpgid: true}
		if err := cmd.Start(); err != nil {
			panic(err)
		}
		done := make(chan error, 1)
		go func() { done <- cmd.Wait() }()
		var werr error
		timedOut := false
		select {
		case werr = <-done:
		case <-time.After(timeout):
			timedOut = true
			// ask for a goroutine dump, then kill the whole group
			_ = syscall.Kill(-cmd.Process.Pid, syscall.SIGQUIT)
			select {
			case werr = <-done:
			case <-time.After(5 * time.Second):
				_ = syscall.Kill(-cmd.Process.Pid, syscall.SIGKILL)
				werr = <-done
			}
		}
		if b, err := os.ReadFile(out); err == nil && !timedOut {
			var r Result
			if json.Unmarshal(b, &r) == nil {
				if werr != nil && r.Err == "" {
					r.Err = fmt.Sprintf("child reported success but exited abnormally (%v):\n%s", werr, tail(stderr.String(), 3000))
				}
				return r
			}
		}
		if timedOut {
			return Result{Err: fmt.Sprintf("HANG: case did not finish within %v (the case's own deadlines are far shorter); goroutine dump:\n%s", timeout, interesting(stderr.String(), 6000))}
		}
		return Result{Err: fmt.Sprintf("CRASH: child process died (%v):\n%s", werr, interesting(stderr.String(), 6000))}
	})
}

func childMain[C any](run func(C) Result) {
	b, err := os.ReadFile(os.Getenv("VERIF_CHILD_IN"))
	if err != nil {
		fmt.Fprintln(os.Stderr, "child:", err)
		os.Exit(2)
	}
	var c C
	if err := json.Unmarshal(b, &c); err != nil {
		fmt.Fprintln(os.Stderr, "child: cannot decode case:", err)
		os.Exit(2)
	}
	r := safeRun(run, c)
	ob, _ := json.Marshal(r)
	if err := os.WriteFile(os.Getenv("VERIF_CHILD_OUT"), ob, 0o644); err != nil {
		fmt.Fprintln(os.Stderr, "child:", err)
		os.Exit(2)
	}
	os.Exit(0)
}

func tail(s string, n int) string {
	if len(s) > n {
		return "..." + s[len(s)-n:]
	}
	return s
}

// Interesting is the exported form of interesting.
func Interesting(s string, n int) string { return interesting(s, n) }

// interesting returns the part of a crash output that starts at the panic / fatal error line.
func interesting(s string, n int) string {
	if i := strings.Index(s, "SIGQUIT"); i >= 0 {
		// goroutine dump: keep the goroutines that are inside rain or the harness, most informative first
		blocks := strings.Split(s[i:], "\n\n")
		var keep []string
		for _, b := range blocks {
			if !strings.HasPrefix(b, "goroutine ") {
				continue
			}
			if strings.Contains(b, "cenkalti/rain/v2/torrent.") || strings.Contains(b, "cenkalti/rain/v2/internal/") {
				// drop the register/frame-pointer noise
				var lines []string
				for _, l := range strings.Split(b, "\n") {
					if j := strings.Index(l, " fp=0x"); j >= 0 {
						l = l[:j]
					}
					lines = append(lines, l)
				}
				keep = append(keep, strings.Join(lines, "\n"))
			}
		}
		s = "SIGQUIT goroutine dump (rain goroutines only):\n" + strings.Join(keep, "\n\n")
		if len(s) > 3*n {
			return s[:3*n] + "\n..."
		}
		return s
	}
	for _, marker := range []string{"panic: ", "fatal error: ", "SIGQUIT"} {
		if i := strings.Index(s, marker); i >= 0 {
			s = s[i:]
			break
		}
	}
	if len(s) > n {
		return s[:n] + "\n..."
	}
	return s
}
