// Package core is the glue between rapid, the property packages and the ./check driver:
// case journal, statistics for the evidence file, replay files, child-process isolation.
//
// A unit is one executable property (one Go test). A case is a JSON-serialisable value produced by a
// rapid generator; run(case) is deterministic given the case (up to goroutine scheduling in system-level
// units) and returns a Result. Failing cases are written to $VERIF_OUT/fail-<unit>.<shard>.json; the last
// one written is the one rapid shrank to (rapid re-runs the minimal case at the end of shrinking).
package core

import (
	"crypto/sha1"
	"encoding/binary"
	"encoding/json"
	"fmt"
	"os"
	"path/filepath"
	"runtime/debug"
	"sort"
	"strings"
	"sync"
	"syscall"
	"testing"
	"time"

	"pgregory.net/rapid"
)

// Result of running one case.
type Result struct {
	Err        string         `json:"err,omitempty"`        // non-empty: oracle failure (a violation)
	Nontrivial bool           `json:"nontrivial,omitempty"` // by the unit's stated rule
	Labels     []string       `json:"labels,omitempty"`     // class labels for the histogram
	Excluded   string         `json:"excluded,omitempty"`   // non-empty: case hit the shape of an open known finding and was not judged
	Inconcl    string         `json:"inconclusive,omitempty"`
	Sample     any            `json:"sample,omitempty"` // optional compact rendering of the case for the evidence file (default: the case)
	Counts     map[string]int `json:"counts,omitempty"` // additional measured counters, summed into the class histogram
}

func Failf(format string, a ...any) Result { return Result{Err: fmt.Sprintf(format, a...)} }

// ReplayFile is the on-disk format of a reproducer.
type ReplayFile struct {
	Unit string          `json:"unit"`
	Case json.RawMessage `json:"case"`
	Err  string          `json:"err,omitempty"`
}

type stats struct {
	Unit         string         `json:"unit"`
	Shard        string         `json:"shard"`
	Evaluations  int            `json:"evaluations"`
	Nontrivial   int            `json:"nontrivial_evaluations"`
	Classes      map[string]int `json:"classes"`
	Excluded     map[string]int `json:"excluded"`
	Inconclusive map[string]int `json:"inconclusive"`
	Samples      []any          `json:"samples"`
	Failed       bool           `json:"failed"`
	fps          map[uint64]struct{}
	mu           sync.Mutex
}

func outDir() string {
	d := os.Getenv("VERIF_OUT")
	if d == "" {
		d = os.TempDir()
	}
	return d
}

func shard() string {
	s := os.Getenv("VERIF_SHARD")
	if s == "" {
		s = "0"
	}
	return s
}

// Tier returns "quick" or "thorough".
func Tier() string {
	if os.Getenv("VERIF_TIER") == "thorough" {
		return "thorough"
	}
	return "quick"
}

func fingerprint(raw []byte) uint64 {
	h := sha1.Sum(raw)
	return binary.LittleEndian.Uint64(h[:8])
}

func (s *stats) record(raw []byte, c any, r *Result) {
	s.mu.Lock()
	defer s.mu.Unlock()
	s.Evaluations++
	for _, l := range r.Labels {
		s.Classes[l]++
	}
	for k, v := range r.Counts {
		s.Classes[k] += v
	}
	if r.Excluded != "" {
		s.Excluded[r.Excluded]++
		return
	}
	if r.Inconcl != "" {
		s.Inconclusive[r.Inconcl]++
	}
	if r.Nontrivial {
		s.Nontrivial++
		fp := fingerprint(raw)
		if _, ok := s.fps[fp]; !ok {
			s.fps[fp] = struct{}{}
			// keep a few samples, spread over the run: the 1st, 10th, 100th, ... distinct nontrivial case
			n := len(s.fps)
			if n == 1 || n == 10 || n == 100 || n == 1000 || n == 10000 {
				var sample any = r.Sample
				if sample == nil {
					if len(raw) <= 3000 {
						sample = json.RawMessage(raw)
					} else {
						sample = string(raw[:3000]) + "...(truncated)"
					}
				}
				s.Samples = append(s.Samples, map[string]any{"case": sample, "labels": r.Labels})
			}
		}
	}
}

func (s *stats) flush() {
	s.mu.Lock()
	defer s.mu.Unlock()
	base := filepath.Join(outDir(), fmt.Sprintf("stats-%s.%s", s.Unit, s.Shard))
	b, _ := json.Marshal(s)
	_ = os.WriteFile(base+".json", b, 0o644)
	fp := make([]byte, 0, 8*len(s.fps))
	keys := make([]uint64, 0, len(s.fps))
	for k := range s.fps {
		keys = append(keys, k)
	}
	sort.Slice(keys, func(i, j int) bool { return keys[i] < keys[j] })
	for _, k := range keys {
		fp = binary.LittleEndian.AppendUint64(fp, k)
	}
	_ = os.WriteFile(base+".fp", fp, 0o644)
}

func newStats(unit string) *stats {
	return &stats{Unit: unit, Shard: shard(), Classes: map[string]int{}, Excluded: map[string]int{},
		Inconclusive: map[string]int{}, fps: map[uint64]struct{}{}}
}

func writeFail(unit string, raw []byte, err string) string {
	p := filepath.Join(outDir(), fmt.Sprintf("fail-%s.%s.json", unit, shard()))
	b, _ := json.MarshalIndent(ReplayFile{Unit: unit, Case: raw, Err: err}, "", " ")
	_ = os.WriteFile(p, b, 0o644)
	return p
}

func safeRun[C any](run func(C) Result, c C) (r Result) {
	defer func() {
		if p := recover(); p != nil {
			msg := fmt.Sprint(p)
			// the harness's own sockets: the operating system ran out of a resource (ports in TIME_WAIT, descriptors);
			// that says nothing about the code under test
			for _, infra := range []string{"bind: address already in use", "cannot assign requested address", "too many open files", "no buffer space available"} {
				if strings.Contains(msg, infra) {
					r = Result{Inconcl: "harness could not get a socket: " + infra}
					return
				}
			}
			r = Result{Err: fmt.Sprintf("panic: %v\n%s", p, trimStack(debug.Stack()))}
		}
	}()
	return run(c)
}

func trimStack(b []byte) string {
	s := string(b)
	if len(s) > 4000 {
		s = s[:4000] + "\n..."
	}
	return s
}

// replayTarget returns the replay file if one was requested.
func replayTarget() (*ReplayFile, bool) {
	p := os.Getenv("VERIF_REPLAY")
	if p == "" {
		return nil, false
	}
	b, err := os.ReadFile(p)
	if err != nil {
		fmt.Fprintf(os.Stderr, "replay: %v\n", err)
		os.Exit(2)
	}
	var rf ReplayFile
	if err := json.Unmarshal(b, &rf); err != nil {
		fmt.Fprintf(os.Stderr, "replay: %v\n", err)
		os.Exit(2)
	}
	return &rf, true
}

// Run drives one unit: under VERIF_REPLAY it re-runs the stored case without the generator library,
// otherwise it runs rapid.Check over gen and judges each case with run.
func Run[C any](t *testing.T, unit string, gen func(*rapid.T) C, run func(C) Result) {
	if rf, ok := replayTarget(); ok {
		if rf.Unit != unit {
			t.Skip("replay is for another unit")
		}
		var c C
		if err := json.Unmarshal(rf.Case, &c); err != nil {
			fmt.Fprintf(os.Stderr, "replay: cannot decode case: %v\n", err)
			os.Exit(2)
		}
		r := safeRun(run, c)
		if r.Err != "" {
			fmt.Printf("REPLAY-FAIL unit=%s\n%s\n", unit, r.Err)
			t.Fatalf("replayed case fails: %s", r.Err)
		}
		fmt.Printf("REPLAY-PASS unit=%s labels=%v inconclusive=%q excluded=%q\n", unit, r.Labels, r.Inconcl, r.Excluded)
		return
	}
	st := newStats(unit)
	defer st.flush()
	journal := os.Getenv("VERIF_JOURNAL") != ""
	// Shrinking budget. rapid's -rapid.shrinktime is only looked at between shrink passes, and one attempt of a
	// session-level case can take seconds (or a child timeout), so a failing shard could go on for many minutes.
	// Once a failure has been recorded, every attempt after the budget fails at once without running and without
	// touching the replay file: the file keeps the smallest case that really failed.
	budget := 90 * time.Second
	if v, err := time.ParseDuration(os.Getenv("VERIF_SHRINK_BUDGET")); err == nil && v > 0 {
		budget = v
	}
	var firstFail time.Time
	rapid.Check(t, func(rt *rapid.T) {
		if !firstFail.IsZero() && time.Since(firstFail) > budget {
			rt.Fatalf("shrink budget of %v used up; the last case that really failed is in the replay file", budget)
		}
		c := gen(rt)
		raw, err := json.Marshal(c)
		if err != nil {
			panic("case not serialisable: " + err.Error())
		}
		if journal {
			b, _ := json.Marshal(ReplayFile{Unit: unit, Case: raw})
			_ = os.WriteFile(filepath.Join(outDir(), fmt.Sprintf("cur-%s.%s.json", unit, shard())), b, 0o644)
		}
		r := safeRun(run, c)
		st.record(raw, c, &r)
		if r.Err != "" {
			st.Failed = true
			if firstFail.IsZero() {
				firstFail = time.Now()
			}
			writeFail(unit, raw, r.Err)
			rt.Fatalf("%s", firstLines(r.Err, 30))
		}
	})
}

func firstLines(s string, n int) string {
	l := strings.SplitN(s, "\n", n+1)
	if len(l) > n {
		l = l[:n]
	}
	return strings.Join(l, "\n")
}

// ---- known findings ----

type Finding struct {
	Property   string `json:"property"`
	ID         string `json:"id"`
	Status     string `json:"status"` // open | fixed
	Commit     string `json:"commit,omitempty"`
	What       string `json:"what"`
	Reproducer string `json:"reproducer"`
	Signature  string `json:"signature"`      // substring that the failure message of the reproducer must contain
	Race       string `json:"race,omitempty"` // for data-race findings: "<funcA> <-> <funcB>" (innermost rain frames, sorted)
}

var (
	findingsOnce sync.Once
	findings     map[string]Finding
)

// Root is /verif (or $VERIF_ROOT).
func Root() string {
	if r := os.Getenv("VERIF_ROOT"); r != "" {
		return r
	}
	return "/verif"
}

// FindingOpen reports whether the known-findings file lists id as an open finding. Generators use it to
// exclude (and count) the shape of an open finding so that the search continues past it.
func FindingOpen(id string) bool {
	findingsOnce.Do(func() {
		findings = map[string]Finding{}
		b, err := os.ReadFile(filepath.Join(Root(), "known_findings.json"))
		if err != nil {
			return
		}
		var fs []Finding
		if json.Unmarshal(b, &fs) != nil {
			return
		}
		for _, f := range fs {
			findings[f.ID] = f
		}
	})
	f, ok := findings[id]
	return ok && f.Status == "open"
}

// Watchdog runs f and reports whether it returned within d. A false return means f is still running
// (the goroutine cannot be reclaimed): callers must treat it as fatal (see Result.Fatal / Die).
func Watchdog(d time.Duration, f func()) (ok bool, panicked any) {
	done := make(chan any, 1)
	go func() {
		defer func() { done <- recover() }()
		f()
	}()
	// d is meant as time in which f could work. On a machine with several times more busy processes than cores, d of
	// wall time can pass with little of it given to this process ("a time budget hit means inconclusive, never a
	// violation"): f counts as hanging once d has passed and the process has used d/2 of CPU time since f started
	// (it is computing, not waiting for a core), or once 6*d have passed (it is blocked).
	start, cpu0 := time.Now(), processCPU()
	tick := time.NewTicker(100 * time.Millisecond)
	defer tick.Stop()
	for {
		select {
		case p := <-done:
			return true, p
		case <-tick.C:
			wall := time.Since(start)
			if wall < d {
				continue
			}
			if processCPU()-cpu0 >= d/2 || wall >= 6*d {
				return false, nil
			}
		}
	}
}

func processCPU() time.Duration {
	var ru syscall.Rusage
	if err := syscall.Getrusage(syscall.RUSAGE_SELF, &ru); err != nil {
		return 0
	}
	return time.Duration(ru.Utime.Nano() + ru.Stime.Nano())
}

// Die writes the failing case as the replay file of this shard and exits the process at once. Used when the
// code under test hangs or spins: the leaked goroutine makes further generation and shrinking meaningless.
func Die[C any](unit string, c C, msg string) {
	raw, _ := json.Marshal(c)
	writeFail(unit, raw, msg)
	fmt.Printf("FATAL-CASE unit=%s %s\n", unit, msg)
	os.Exit(3)
}

// Replaying reports whether this process re-runs a stored case (exclusions of open findings do not apply then).
func Replaying() bool { return os.Getenv("VERIF_REPLAY") != "" }

// OpenRaceFinding returns the id of the open known finding whose "race" signature equals sig ("" if none).
func OpenRaceFinding(sig string) string {
	FindingOpen("") // load
	for id, f := range findings {
		if f.Status == "open" && f.Race != "" && f.Race == sig {
			return id
		}
	}
	return ""
}
