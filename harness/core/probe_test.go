package core

import (
	"github.com/cenkalti/rain/v2/internal/bitfield"
	"pgregory.net/rapid"
	"testing"
)

func TestProbe(t *testing.T) {
	rapid.Check(t, func(t *rapid.T) {
		n := rapid.IntRange(1, 100).Draw(t, "n")
		b := bitfield.New(uint32(n))
		if b.Len() != uint32(n) {
			t.Fatal("x")
		}
	})
}
