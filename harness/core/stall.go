package core

import (
	"sync/atomic"
	"time"
)

// Stall measures how long this process was not running: a goroutine that asks to be woken every 50 ms adds up the
// time by which its wake-ups came late (only delays of more than 0.35 s count). Checks that judge a wall-clock
// bound add Lost() to their allowance: on a machine with several times more busy processes than cores a case
// process is descheduled for seconds at a time, and every timer that expired meanwhile fires at once, in no order.
type Stall struct {
	lost atomic.Int64
	stop chan struct{}
}

func WatchStalls() *Stall {
	s := &Stall{stop: make(chan struct{})}
	go func() {
		last := time.Now()
		for {
			select {
			case <-s.stop:
				return
			case <-time.After(50 * time.Millisecond):
			}
			if d := time.Since(last) - 50*time.Millisecond; d > 350*time.Millisecond {
				s.lost.Add(int64(d))
			}
			last = time.Now()
		}
	}()
	return s
}

// Lost is the total time by which wake-ups came late so far.
func (s *Stall) Lost() time.Duration { return time.Duration(s.lost.Load()) }
func (s *Stall) Stop()               { close(s.stop) }
