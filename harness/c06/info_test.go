package c06

import (
	"bytes"
	"fmt"
	"math"
	"runtime"
	"strings"
	"testing"
	"time"

	"github.com/cenkalti/rain/v2/internal/allocator"
	"github.com/cenkalti/rain/v2/internal/metainfo"
	"github.com/cenkalti/rain/v2/internal/piece"
	"github.com/cenkalti/rain/v2/internal/storage"
	"github.com/cenkalti/rain/v2/verifharness/core"
	"github.com/cenkalti/rain/v2/verifharness/model"
	"pgregory.net/rapid"
)

// Mut is one adversarial edit of a valid info dictionary.
type Mut struct {
	Kind string `json:"kind"`
	I    int    `json:"i,omitempty"`
	J    int    `json:"j,omitempty"`
	V    int64  `json:"v,omitempty"`
	S    string `json:"s,omitempty"`
}

// MICase: a small valid layout, a list of mutations, the parser flags, and whether the bytes go through
// metainfo.New (wrapped in a .torrent dictionary) or straight into NewInfo (peer metadata / resume data).
type MICase struct {
	L       model.Layout `json:"layout"`
	Muts    []Mut        `json:"muts"`
	UTF8    bool         `json:"utf8"`
	Pad     bool         `json:"pad"`
	Wrapped bool         `json:"wrapped"`
}

var hostileInts = []int64{-1, -2, 0, 1, math.MinInt64, math.MinInt64 + 1, math.MaxInt64, math.MaxInt64 - 1, 1 << 62, -(1 << 62), 1 << 32, 1<<32 - 1, 1<<31 - 1, 1 << 31, -16384, 16384}

var mutKinds = []string{"len-set", "len-shift", "len-overflow-pair", "pl-set", "pieces-trunc", "pieces-extend", "pieces-drop20", "pieces-add20",
	"type-name", "type-files", "type-path", "type-length", "type-pieces", "type-pl", "dup-key", "unsorted", "nest", "huge-string",
	"single-length-set", "both-modes", "empty-files", "extra-file", "drop-key", "private-odd", "utf8-keys", "pad-attr"}

func genMI(t *rapid.T) MICase {
	c := MICase{L: model.GenLayout(t, model.LayoutOpts{MaxTotal: 4096, MaxPieces: 64, MaxFiles: 5})}
	c.UTF8 = rapid.Bool().Draw(t, "utf8")
	c.Pad = rapid.Bool().Draw(t, "pad")
	c.Wrapped = rapid.Bool().Draw(t, "wrapped")
	n := rapid.IntRange(0, 3).Draw(t, "nmut")
	for i := 0; i < n; i++ {
		m := Mut{Kind: rapid.SampledFrom(mutKinds).Draw(t, "kind")}
		m.I = rapid.IntRange(0, 7).Draw(t, "i")
		m.J = rapid.IntRange(0, 7).Draw(t, "j")
		if rapid.Bool().Draw(t, "hostileV") {
			m.V = rapid.SampledFrom(hostileInts).Draw(t, "v")
		} else {
			m.V = rapid.Int64Range(-70000, 70000).Draw(t, "v")
		}
		if m.Kind == "nest" {
			m.V = rapid.SampledFrom([]int64{3, 100, 10000, 200000}).Draw(t, "depth")
			if core.Tier() == "thorough" && rapid.IntRange(0, 40).Draw(t, "verydeep") == 0 {
				m.V = 5000000
			}
		}
		c.Muts = append(c.Muts, m)
	}
	return c
}

// Bytes builds the input deterministically from the case.
func (c *MICase) Bytes() []byte {
	F := c.L.Flat()
	d := c.L.InfoDict(F)
	var files []any
	if f, ok := d["files"].([]any); ok {
		files = f
	}
	fileAt := func(i int) map[string]any {
		if len(files) == 0 {
			return nil
		}
		f, _ := files[i%len(files)].(map[string]any)
		return f
	}
	od := model.OrderedDict{}
	var extra []model.KV
	unsorted := false
	for _, m := range c.Muts {
		switch m.Kind {
		case "len-set":
			if f := fileAt(m.I); f != nil {
				f["length"] = m.V
			}
		case "len-shift": // move V bytes from file I to file J: the sum stays equal to what the pieces describe
			if a, b := fileAt(m.I), fileAt(m.J); a != nil && b != nil && m.I%len(files) != m.J%len(files) {
				al, ok1 := a["length"].(int64)
				bl, ok2 := b["length"].(int64)
				if ok1 && ok2 {
					a["length"] = al - m.V
					b["length"] = bl + m.V
				}
			}
		case "len-overflow-pair": // two huge lengths whose int64 sum wraps around to the original sum
			if a, b := fileAt(m.I), fileAt(m.J); a != nil && b != nil && m.I%len(files) != m.J%len(files) {
				al, ok1 := a["length"].(int64)
				bl, ok2 := b["length"].(int64)
				if ok1 && ok2 {
					s := al + bl
					a["length"] = int64(math.MaxInt64)
					b["length"] = s - math.MaxInt64 // wraps
				}
			}
		case "pl-set":
			d["piece length"] = m.V
		case "pieces-trunc":
			p, ok := d["pieces"].([]byte)
			k := int(uint64(m.V) % 21)
			if ok && k <= len(p) {
				d["pieces"] = p[:len(p)-k]
			}
		case "pieces-extend":
			if p, ok := d["pieces"].([]byte); ok {
				d["pieces"] = append(append([]byte{}, p...), make([]byte, int(uint64(m.V)%21))...)
			}
		case "pieces-drop20":
			p, ok := d["pieces"].([]byte)
			if ok && len(p) >= 20 {
				d["pieces"] = p[:len(p)-20]
			}
		case "pieces-add20":
			if p, ok := d["pieces"].([]byte); ok {
				d["pieces"] = append(append([]byte{}, p...), make([]byte, 20*(1+int(uint64(m.V)%3)))...)
			}
		case "type-name":
			d["name"] = m.V
		case "type-files":
			d["files"] = map[string]any{"length": int64(1)}
		case "type-path":
			if f := fileAt(m.I); f != nil {
				f["path"] = "notalist"
			}
		case "type-length":
			if f := fileAt(m.I); f != nil {
				f["length"] = "12"
			} else {
				d["length"] = "12"
			}
		case "type-pieces":
			d["pieces"] = []any{"x"}
		case "type-pl":
			d["piece length"] = "16384"
		case "dup-key":
			extra = append(extra, model.KV{K: "piece length", V: m.V}, model.KV{K: "name", V: "dup"})
		case "unsorted":
			unsorted = true
		case "nest":
			n := int(m.V)
			extra = append(extra, model.KV{K: "zz", V: model.Raw(strings.Repeat("l", n) + strings.Repeat("e", n))})
		case "huge-string":
			extra = append(extra, model.KV{K: "zzz", V: model.Raw(fmt.Sprintf("%d:abc", uint64(m.V)))})
		case "single-length-set":
			d["length"] = m.V
		case "both-modes":
			d["length"] = m.V
			if files == nil {
				d["files"] = []any{map[string]any{"length": m.V, "path": []string{"x"}}}
			}
		case "empty-files":
			d["files"] = []any{}
		case "extra-file":
			if files != nil {
				d["files"] = append(files, map[string]any{"length": m.V, "path": []string{"extra"}})
				files = d["files"].([]any)
			}
		case "drop-key":
			keys := []string{"name", "piece length", "pieces", "length", "files"}
			delete(d, keys[m.I%len(keys)])
		case "private-odd":
			odd := []any{int64(0), int64(1), int64(-1), "0", "1", "", []any{}, map[string]any{}, m.V}
			d["private"] = odd[m.I%len(odd)]
		case "utf8-keys":
			d["name.utf-8"] = "u-" + c.L.Name
			if f := fileAt(m.I); f != nil {
				f["path.utf-8"] = []string{"u", "p"}
			}
		case "pad-attr":
			if f := fileAt(m.I); f != nil {
				f["attr"] = []string{"p", "x", "hp", ""}[m.J%4]
			}
		}
	}
	// stable key order (sorted), then optional reversal, then extras appended (dup / unsorted / nested)
	sorted := model.Benc(d) // used only to learn sorted key order
	_ = sorted
	keys := make([]string, 0, len(d))
	for k := range d {
		keys = append(keys, k)
	}
	sortStrings(keys)
	if unsorted {
		for i, j := 0, len(keys)-1; i < j; i, j = i+1, j-1 {
			keys[i], keys[j] = keys[j], keys[i]
		}
	}
	for _, k := range keys {
		od = append(od, model.KV{K: k, V: d[k]})
	}
	od = append(od, extra...)
	info := model.Benc(od)
	if c.Wrapped {
		return model.Benc(model.OrderedDict{{K: "announce", V: "http://t/a"}, {K: "info", V: model.Raw(info)}})
	}
	return info
}

func sortStrings(a []string) {
	for i := 1; i < len(a); i++ {
		for j := i; j > 0 && a[j] < a[j-1]; j-- {
			a[j], a[j-1] = a[j-1], a[j]
		}
	}
}

type nullFile struct{}

func (nullFile) ReadAt(p []byte, off int64) (int, error)  { return len(p), nil }
func (nullFile) WriteAt(p []byte, off int64) (int, error) { return len(p), nil }
func (nullFile) Close() error                             { return nil }

var _ storage.File = nullFile{}

// judge applies the well-formedness oracle to whatever the parser returned for input b.
func judge(b []byte, utf8, pad, wrapped bool) (accepted bool, err string, hang bool) {
	var info *metainfo.Info
	var perr error
	var ms0, ms1 runtime.MemStats
	runtime.ReadMemStats(&ms0)
	ok, p := core.Watchdog(20*time.Second, func() {
		if wrapped {
			var mi *metainfo.MetaInfo
			mi, perr = metainfo.New(bytes.NewReader(b))
			if perr == nil {
				info = &mi.Info
			}
		} else {
			info, perr = metainfo.NewInfo(b, utf8, pad)
		}
	})
	if !ok {
		return false, "parser did not return within 20 s", true
	}
	if p != nil {
		return false, fmt.Sprintf("parser panicked: %v", p), false
	}
	runtime.ReadMemStats(&ms1)
	if alloc := ms1.TotalAlloc - ms0.TotalAlloc; alloc > 64*uint64(len(b))+(8<<20) {
		return false, fmt.Sprintf("parser allocated %d bytes for an input of %d bytes", alloc, len(b)), false
	}
	if perr != nil {
		return false, "", false
	}
	if info.PieceLength == 0 {
		return true, "accepted: piece length 0", false
	}
	if info.NumPieces == 0 {
		return true, "accepted: zero pieces", false
	}
	if len(info.Files) == 0 {
		return true, "accepted: no files", false
	}
	var sum int64
	for i, f := range info.Files {
		if f.Length < 0 {
			return true, fmt.Sprintf("accepted: file %d has negative length %d", i, f.Length), false
		}
		if sum+f.Length < sum {
			return true, "accepted: file lengths overflow int64", false
		}
		sum += f.Length
	}
	if sum != info.Length {
		return true, fmt.Sprintf("accepted: files sum to %d but Length is %d", sum, info.Length), false
	}
	n, pl := int64(info.NumPieces), int64(info.PieceLength)
	if !((n-1)*pl < info.Length && info.Length <= n*pl) {
		return true, fmt.Sprintf("accepted: %d pieces of %d do not match total length %d", n, pl, info.Length), false
	}
	if int64(len(b)) < 20*n {
		return true, "accepted: more pieces than the input can describe", false
	}
	// piece construction terminates with work bounded by the input
	files := make([]allocator.File, len(info.Files))
	for i, f := range info.Files {
		files[i] = allocator.File{Storage: nullFile{}, Name: f.Path, Padding: f.Padding}
	}
	var pieces []piece.Piece
	ok, p = core.Watchdog(20*time.Second, func() { pieces = piece.NewPieces(info, files) })
	if !ok {
		return true, "accepted, but piece.NewPieces did not return within 20 s", true
	}
	if p != nil {
		return true, fmt.Sprintf("accepted, but piece.NewPieces panicked: %v", p), false
	}
	if len(pieces) != int(info.NumPieces) {
		return true, "NewPieces returned wrong number of pieces", false
	}
	var total int64
	for i := range pieces {
		total += int64(pieces[i].Length)
		nsec := len(pieces[i].Data)
		if nsec > len(info.Files)+1 {
			return true, fmt.Sprintf("piece %d has %d sections for %d files", i, nsec, len(info.Files)), false
		}
	}
	if total != info.Length {
		return true, fmt.Sprintf("pieces cover %d bytes, total is %d", total, info.Length), false
	}
	// block calculation of the first and last piece (cost is proportional to piece length / 16 KiB)
	for _, idx := range []int{0, len(pieces) - 1} {
		pc := &pieces[idx]
		if pc.Length > 256<<20 {
			continue // a legal multi-GiB piece: block list would be large but bounded; skip for cost
		}
		var blocks []piece.Block
		ok, p = core.Watchdog(20*time.Second, func() { blocks = pc.CalculateBlocks() })
		if !ok {
			return true, "accepted, but CalculateBlocks did not return within 20 s", true
		}
		if p != nil {
			return true, fmt.Sprintf("accepted, but CalculateBlocks panicked: %v", p), false
		}
		for _, bl := range blocks {
			if bl.Length == 0 || bl.Length > piece.BlockSize || uint64(bl.Begin)+uint64(bl.Length) > uint64(pc.Length) {
				return true, fmt.Sprintf("piece %d block %+v malformed", idx, bl), false
			}
		}
	}
	return true, "", false
}

func runMI(c MICase) core.Result {
	b := c.Bytes()
	accepted, err, hang := judge(b, c.UTF8, c.Pad, c.Wrapped)
	res := core.Result{Nontrivial: len(c.Muts) > 0}
	for _, m := range c.Muts {
		res.Labels = append(res.Labels, m.Kind)
	}
	if accepted {
		res.Labels = append(res.Labels, "accepted")
	} else {
		res.Labels = append(res.Labels, "rejected")
	}
	if len(b) > 3000 {
		res.Sample = map[string]any{"muts": c.Muts, "layout": c.L, "input_len": len(b)}
	}
	if hang {
		core.Die("c06.info", c, err)
	}
	if err != "" {
		res.Err = err + fmt.Sprintf("\ninput (%d bytes): %q", len(b), clip(b))
	}
	return res
}

func clip(b []byte) []byte {
	if len(b) > 600 {
		return b[:600]
	}
	return b
}

func TestInfo(t *testing.T) { core.Run(t, "c06.info", genMI, runMI) }
