package c06

import (
	"bytes"
	"crypto/sha1"
	"encoding/hex"
	"fmt"
	"net"
	"net/http"
	"os"
	"path/filepath"
	"sort"
	"strings"
	"sync"
	"testing"
	"time"

	"github.com/cenkalti/rain/v2/internal/logger"
	"github.com/cenkalti/rain/v2/internal/resumer/boltdbresumer"
	"github.com/cenkalti/rain/v2/torrent"
	"github.com/cenkalti/rain/v2/verifharness/core"
	"github.com/cenkalti/rain/v2/verifharness/model"
	"github.com/cenkalti/rain/v2/verifharness/sess"
	"github.com/cenkalti/rain/v2/verifharness/speer"
	"github.com/cenkalti/rain/v2/verifharness/sstore"
	"go.etcd.io/bbolt"
	"pgregory.net/rapid"
)

func TestMain(m *testing.M) {
	if os.Getenv("VERIF_DEBUG") == "" {
		logger.Disable()
	}
	os.Exit(m.Run())
}

// c06.session: the same adversarial info dictionaries as c06.info, handed to a real Session through each of its four
// doors - a .torrent file, the body of a torrent URL, an info dictionary served by a peer for a magnet link, and the
// info stored in the resume database - with generated torrent-size and piece-count limits, and then started.
type SCase struct {
	MI        MICase `json:"mi"`
	Door      string `json:"door"`       // file | url | magnet | resume
	MaxPieces int    `json:"max_pieces"` // 0 = default; otherwise relative to the layout's piece count
	MaxSize   int    `json:"max_torrent_size"`
}

func genS(t *rapid.T) SCase {
	c := SCase{MI: genMI(t)}
	c.Door = rapid.SampledFrom([]string{"file", "file", "url", "magnet", "magnet", "resume"}).Draw(t, "door")
	c.MI.Wrapped = c.Door == "file" || c.Door == "url"
	if rapid.IntRange(0, 2).Draw(t, "limitPieces") == 0 {
		c.MaxPieces = max(1, c.MI.L.NumPieces()+rapid.IntRange(-2, 0).Draw(t, "pieceSlack"))
	}
	c.MaxSize = rapid.SampledFrom([]int{0, 0, 0, 200, 1000, 20000}).Draw(t, "maxSize")
	return c
}

// expected describes what an independent reading of the input says.
type expected struct {
	decodable bool
	pl        int64
	total     int64
	npieces   int64 // by the pieces string
	sane      bool  // positive piece length, non-negative lengths, pieces string a positive multiple of 20 matching ceil(total/pl)
}

func readInfo(info any) expected {
	e := expected{}
	d, ok := info.(map[string]any)
	if !ok {
		return e
	}
	e.decodable = true
	pl, ok1 := d["piece length"].(int64)
	ps, ok2 := d["pieces"].(string)
	if !ok1 || !ok2 {
		return e
	}
	e.pl = pl
	e.npieces = int64(len(ps) / 20)
	nonneg := true
	if fs, ok := d["files"].([]any); ok {
		for _, f := range fs {
			fd, _ := f.(map[string]any)
			l, ok := fd["length"].(int64)
			if !ok || l < 0 {
				nonneg = false
			}
			if e.total+l < e.total && l > 0 {
				nonneg = false
			}
			e.total += l
		}
	} else if l, ok := d["length"].(int64); ok {
		e.total = l
		nonneg = l >= 0
	} else {
		nonneg = false
	}
	e.sane = pl > 0 && nonneg && len(ps) > 0 && len(ps)%20 == 0 && e.total > 0 && (e.total+pl-1)/pl == e.npieces
	return e
}

func runS(c SCase) core.Result {
	raw := c.MI.Bytes()
	// the info dictionary inside
	var infoBytes []byte
	var exp expected
	if v, _, err := model.Bdecode(raw); err == nil {
		if c.MI.Wrapped {
			if top, ok := v.(map[string]any); ok {
				exp = readInfo(top["info"])
				if i0 := bytes.Index(raw, []byte("4:info")); i0 >= 0 {
					if _, n, err := model.Bdecode(raw[i0+6:]); err == nil {
						infoBytes = raw[i0+6 : i0+6+n]
					}
				}
			}
		} else {
			exp = readInfo(v)
			infoBytes = raw
		}
	}
	if !c.MI.Wrapped {
		infoBytes = raw
	}
	dir, cleanup := sess.Scratch("c06")
	defer cleanup()
	cfg := sess.Config(dir)
	if c.MaxPieces > 0 {
		cfg.MaxPieces = uint32(c.MaxPieces)
	}
	if c.MaxSize > 0 {
		cfg.MaxTorrentSize = uint(c.MaxSize)
		cfg.MaxMetadataSize = uint(c.MaxSize)
	}
	prov := sstore.NewProvider()
	prov.Setup = func(id string, m *sstore.Mem) { m.MaxFileSize = 32 << 20 } // a "disk" of 32 MiB per file: bigger files fail to open
	cfg.CustomStorage = prov
	// "a valid, unmodified torrent must be accepted" is only claimed for layouts with at least one data byte
	// (a torrent that consists of padding alone has nothing to download; whether it is accepted is not the property's business)
	hasData := false
	for _, f := range c.MI.L.Files {
		if f.Pad == 0 && f.Length > 0 {
			hasData = true
		}
	}
	exp.sane = exp.sane && hasData
	res := core.Result{Nontrivial: len(c.MI.Muts) > 0}
	lab := map[string]bool{"door-" + c.Door: true}
	for _, m := range c.MI.Muts {
		lab[m.Kind] = true
	}
	finish := func() core.Result {
		for k := range lab {
			res.Labels = append(res.Labels, k)
		}
		sort.Strings(res.Labels)
		if len(raw) > 3000 {
			res.Sample = map[string]any{"door": c.Door, "muts": c.MI.Muts, "layout": c.MI.L, "input_len": len(raw)}
		}
		return res
	}
	fail := func(format string, a ...any) core.Result {
		r := core.Failf(format, a...)
		r.Err += fmt.Sprintf("\ndoor %s, max pieces %d, max size %d; input (%d bytes): %q", c.Door, c.MaxPieces, c.MaxSize, len(raw), clip(raw))
		return r
	}

	var ses *torrent.Session
	var tor *torrent.Torrent
	var addErr error
	closeSes := func() {
		if ses != nil {
			done := make(chan struct{})
			go func() { ses.Close(); close(done) }()
			select {
			case <-done:
			case <-time.After(15 * time.Second):
				core.Die("c06.session", c, "Session.Close did not return within 15 s")
			}
		}
	}
	watchdog := func(what string, f func()) {
		if ok, p := core.Watchdog(15*time.Second, f); !ok {
			core.Die("c06.session", c, what+" did not return within 15 s")
		} else if p != nil {
			panic(p)
		}
	}
	adopted := false
	switch c.Door {
	case "file", "url":
		var err error
		ses, err = torrent.NewSession(cfg)
		if err != nil {
			return core.Result{Inconcl: "session: " + err.Error()}
		}
		defer closeSes()
		if c.Door == "file" {
			watchdog("AddTorrent", func() { tor, addErr = ses.AddTorrent(bytes.NewReader(raw), nil) })
		} else {
			ln, err := net.Listen("tcp4", sess.IP(3)+":0")
			if err != nil {
				panic(err)
			}
			srv := &http.Server{Handler: http.HandlerFunc(func(w http.ResponseWriter, r *http.Request) { w.Write(raw) })}
			go srv.Serve(ln)
			defer srv.Close()
			watchdog("AddURI", func() { tor, addErr = ses.AddURI("http://"+ln.Addr().String()+"/x.torrent", nil) })
		}
		if addErr != nil {
			lab["rejected"] = true
			if exp.sane && (c.MaxSize == 0 || len(raw) <= c.MaxSize) && (c.MaxPieces == 0 || exp.npieces <= int64(c.MaxPieces)) && len(c.MI.Muts) == 0 {
				return fail("a valid, unmodified torrent within the limits was rejected: %v", addErr)
			}
			return finish()
		}
		adopted = true
		if c.MaxSize > 0 && len(raw) > c.MaxSize {
			// the reader is cut at the limit: what was parsed is a prefix, which cannot be a complete dictionary
			return fail("a torrent of %d bytes was accepted although the configured maximum torrent size is %d", len(raw), c.MaxSize)
		}
	case "magnet":
		ih := sha1.Sum(infoBytes)
		var err error
		ses, err = torrent.NewSession(cfg)
		if err != nil {
			return core.Result{Inconcl: "session: " + err.Error()}
		}
		defer closeSes()
		tor, addErr = ses.AddURI("magnet:?xt=urn:btih:"+hex.EncodeToString(ih[:]), nil)
		if addErr != nil {
			return fail("adding a valid magnet link failed: %v", addErr)
		}
		ln, err := net.Listen("tcp4", sess.IP(1)+":0")
		if err != nil {
			panic(err)
		}
		defer ln.Close()
		var mu sync.Mutex
		var peers []*speer.Peer
		go func() {
			for {
				conn, err := ln.Accept()
				if err != nil {
					return
				}
				go func() {
					var id [20]byte
					copy(id[:], "-SP0001-metadata0000")
					p, err := speer.Accept(conn, speer.Opts{InfoHash: ih, PeerID: id, Fast: true, Ext: true, MetadataSize: int64(len(infoBytes)), Reqq: 250}, 3*time.Second)
					if err != nil {
						return
					}
					mu.Lock()
					peers = append(peers, p)
					mu.Unlock()
					speer.Serve(p, speer.Behaviour{Have: []bool{}}, nil, 16384, infoBytes)
				}()
			}
		}()
		defer func() {
			mu.Lock()
			for _, p := range peers {
				p.Close()
			}
			mu.Unlock()
		}()
		_ = tor.AddPeer(ln.Addr().String())
		select {
		case <-tor.NotifyMetadata():
			adopted = true
		case <-tor.NotifyStop():
			lab["rejected"] = true
		case <-time.After(map[bool]time.Duration{true: 10 * time.Second, false: 2500 * time.Millisecond}[len(c.MI.Muts) == 0]):
			lab["not-adopted"] = true
		}
		if !adopted {
			if exp.sane && len(c.MI.Muts) == 0 && (c.MaxSize == 0 || len(infoBytes) <= c.MaxSize) && (c.MaxPieces == 0 || exp.npieces <= int64(c.MaxPieces)) && len(infoBytes) > 0 {
				st := tor.Stats()
				// stuck-state predicate: the peer offering the metadata is connected right now. If the one connection
				// attempt to it failed (a handshake that timed out on a loaded machine), the client has nobody to ask.
				connected := false
				mu.Lock()
				for _, p := range peers {
					if !p.Closed() {
						connected = true
					}
				}
				mu.Unlock()
				if !connected || st.Peers.Total == 0 {
					res.Inconcl = "magnet: the scripted metadata peer is not connected at the deadline"
					return finish()
				}
				return fail("a valid, unmodified info dictionary within the limits, served by a connected peer, was not adopted within 10 s (status %v, peers %d)", st.Status, st.Peers.Total)
			}
			return finish()
		}
		if c.MaxSize > 0 && len(infoBytes) > c.MaxSize {
			return fail("metadata of %d bytes was downloaded although the configured maximum metadata size is %d", len(infoBytes), c.MaxSize)
		}
	case "resume":
		// write a record with this info into a fresh database, then open a session on it
		db, err := bbolt.Open(cfg.Database, 0o600, &bbolt.Options{Timeout: time.Second, NoSync: true})
		if err != nil {
			panic(err)
		}
		err = db.Update(func(tx *bbolt.Tx) error {
			_, err := tx.CreateBucketIfNotExists([]byte("torrents"))
			return err
		})
		if err != nil {
			panic(err)
		}
		rs, err := boltdbresumer.New(db, []byte("torrents"))
		if err != nil {
			panic(err)
		}
		ih := sha1.Sum(infoBytes)
		if err := rs.Write("rec", &boltdbresumer.Spec{InfoHash: ih[:], Port: int(cfg.PortBegin), Name: "rec", Info: infoBytes, AddedAt: time.Now(), Started: true}); err != nil {
			panic(err)
		}
		db.Close()
		cfg.ResumeOnStartup = true
		var serr error
		watchdog("NewSession on a database with a hostile record", func() { ses, serr = torrent.NewSession(cfg) })
		if serr != nil {
			return fail("a session cannot be opened on a database that holds one bad record: %v", serr)
		}
		defer closeSes()
		tor = ses.GetTorrent("rec")
		if tor == nil {
			lab["rejected"] = true
			if exp.sane && len(c.MI.Muts) == 0 && (c.MaxPieces == 0 || exp.npieces <= int64(c.MaxPieces)) {
				return fail("a record with a valid, unmodified info dictionary within the limits was not loaded")
			}
			return finish()
		}
		adopted = true
	}
	lab["accepted"] = true
	// ---- accepted: what the client holds must be well-formed and within the limits; starting it terminates ----
	// (judged on what the torrent itself reports: with duplicate keys, both single- and multi-file keys or odd types an
	// independent reading of the bytes may legitimately pick other values than the client's parser)
	maxPieces := int64(cfg.MaxPieces)
	var st torrent.Stats
	settled := false
	for i := 0; i < 600; i++ {
		st = tor.Stats()
		if st.Status == torrent.Downloading || st.Status == torrent.Seeding || st.Status == torrent.Stopped {
			settled = true
			break
		}
		time.Sleep(10 * time.Millisecond)
	}
	if !settled {
		return fail("6 s after it was accepted and started the torrent is still %v (%d pieces of %d, %d bytes): starting does not terminate", st.Status, st.Pieces.Total, st.PieceLength, st.Bytes.Total)
	}
	if st.Status == torrent.Stopped {
		lab["stopped-with-error"] = true
		// a torrent that stopped (e.g. a file larger than the 32 MiB "disk") still knows its metadata
	} else {
		lab["started"] = true
	}
	if st.PieceLength == 0 {
		return fail("accepted: piece length 0")
	}
	files, ferr := tor.Files()
	if ferr != nil {
		return fail("accepted, but Files() fails: %v", ferr)
	}
	// Files() lists the data files; padding files are hidden but counted in Bytes.Total (Bytes.Padding says how much)
	var sum int64
	for i, f := range files {
		if f.Length() < 0 {
			return fail("accepted: file %d has negative length %d", i, f.Length())
		}
		if sum+f.Length() < sum {
			return fail("accepted: file lengths overflow")
		}
		sum += f.Length()
	}
	if st.Status != torrent.Stopped {
		n, pl := int64(st.Pieces.Total), int64(st.PieceLength)
		if n < 1 {
			return fail("accepted: zero pieces")
		}
		if n > maxPieces {
			return fail("accepted and started a torrent of %d pieces although the configured piece-count limit is %d", n, maxPieces)
		}
		if st.Bytes.Padding < 0 || sum+st.Bytes.Padding != st.Bytes.Total {
			return fail("accepted: data files sum to %d bytes and padding to %d, the torrent reports a total of %d", sum, st.Bytes.Padding, st.Bytes.Total)
		}
		if total := st.Bytes.Total; !((n-1)*pl < total && total <= n*pl) {
			return fail("accepted: %d pieces of %d bytes do not match the total length %d", n, pl, total)
		}
	}
	// independent reading, where it is unambiguous (no mutation touched the structure): the piece-count limit
	if len(c.MI.Muts) == 0 && exp.sane && exp.npieces > maxPieces {
		return fail("accepted a torrent of %d pieces although the configured piece-count limit is %d", exp.npieces, maxPieces)
	}
	_ = adopted
	_ = filepath.Join
	_ = strings.TrimSpace
	return finish()
}

func TestSession(t *testing.T) { core.RunChild(t, "c06.session", genS, runS, 45*time.Second) }
