// Package sess builds rain sessions for the session-level units: private loopback address per process,
// tiny timeouts, DHT/RPC off unless asked, scratch directories on /dev/shm.
package sess

import (
	"fmt"
	"os"
	"path/filepath"
	"time"

	"github.com/cenkalti/rain/v2/torrent"
)

// IP returns a loopback address private to this process: class 0 is the session's own address, classes 1.. are
// for scripted peers/trackers (the client allows one connection per remote IP).
func IP(class int) string {
	pid := os.Getpid()
	return fmt.Sprintf("127.%d.%d.%d", 1+class%120+120*((pid>>16)&1), (pid>>8)&255, pid&255)
}

// Scratch returns a fresh directory (removed by cleanup).
func Scratch(tag string) (string, func()) {
	base := "/dev/shm"
	if st, err := os.Stat(base); err != nil || !st.IsDir() {
		base = os.TempDir()
	}
	d, err := os.MkdirTemp(base, "verif-"+tag+"-")
	if err != nil {
		panic(err)
	}
	return d, func() { os.RemoveAll(d) }
}

// Config returns a configuration tuned for harness use, rooted at dir.
func Config(dir string) torrent.Config {
	c := torrent.DefaultConfig
	c.Database = filepath.Join(dir, "session.db")
	c.DataDir = filepath.Join(dir, "data")
	c.DataDirIncludesTorrentID = true
	c.Host = IP(0)
	c.PortBegin, c.PortEnd = 20000, 20050
	c.MaxOpenFiles = 0
	c.RPCEnabled = false
	c.DHTEnabled = false
	c.PEXEnabled = false
	c.ResumeWriteInterval = 20 * time.Millisecond
	c.HealthCheckInterval = time.Hour
	c.TrackerStopTimeout = 300 * time.Millisecond
	c.TrackerMinAnnounceInterval = time.Second
	c.TrackerHTTPTimeout = 2 * time.Second
	c.PeerConnectTimeout = 2 * time.Second
	c.PeerHandshakeTimeout = 3 * time.Second
	c.RequestTimeout = 3 * time.Second
	c.PieceReadTimeout = 5 * time.Second
	c.BlocklistURL = ""
	c.WebseedRetryInterval = time.Second
	c.WebseedResponseHeaderTimeout = 3 * time.Second
	c.WebseedResponseBodyReadTimeout = 3 * time.Second
	return c
}
