package c18

import (
	"encoding/binary"
	"fmt"
	"hash/crc32"
	"net"
	"sort"
	"strings"
	"testing"

	"github.com/cenkalti/rain/v2/internal/addrlist"
	"github.com/cenkalti/rain/v2/internal/blocklist"
	"github.com/cenkalti/rain/v2/internal/peersource"
	"github.com/cenkalti/rain/v2/verifharness/core"
	"pgregory.net/rapid"
)

// ---- blocklist vs linear scan ----

type Rule struct {
	Kind string `json:"kind"` // cidr | comment | blank | ipv6 | malformed
	IP   uint32 `json:"ip,omitempty"`
	Bits int    `json:"bits,omitempty"`
	Text string `json:"text,omitempty"`
	Pre  string `json:"pre,omitempty"` // leading/trailing whitespace
}

type BLCase struct {
	Lists   [][]Rule `json:"lists"` // successive reloads
	Queries []uint32 `json:"queries"`
}

var malformed = []string{"1.2.3.4", "1.2.3.4/33", "1.2.3/24", "300.1.1.1/8", "a.b.c.d/8", "1.2.3.4/-1", "/24", "1.2.3.4/", "1.2.3.4-1.2.3.9", "1.2.3.4/8/8", "0x01020304/8", "1.2.3.4 /8"}
var baseIPs = []uint32{0, 1, 0x0a000000, 0x0a0000ff, 0x0a000100, 0x7f000001, 0x80000000, 0xc0a80000, 0xfffffffe, 0xffffffff, 0x0a010203}

func genIP(t *rapid.T, l string) uint32 {
	if rapid.Bool().Draw(t, l+"Base") {
		return rapid.SampledFrom(baseIPs).Draw(t, l)
	}
	return rapid.Uint32().Draw(t, l)
}

func genRules(t *rapid.T) []Rule {
	n := rapid.IntRange(0, 25).Draw(t, "nrules")
	var rs []Rule
	for i := 0; i < n; i++ {
		r := Rule{Pre: rapid.SampledFrom([]string{"", "", " ", "\t", "  "}).Draw(t, "ws")}
		switch rapid.IntRange(0, 9).Draw(t, "ruleClass") {
		case 0:
			r.Kind = "comment"
			r.Text = "# " + rapid.SampledFrom([]string{"x", "10.0.0.0/8", ""}).Draw(t, "ctext")
		case 1:
			r.Kind = "blank"
		case 2:
			r.Kind = "ipv6"
			r.Text = rapid.SampledFrom([]string{"::1/128", "2001:db8::/32", "::ffff:10.0.0.0/104", "::/0"}).Draw(t, "v6")
		case 3:
			r.Kind = "malformed"
			r.Text = rapid.SampledFrom(malformed).Draw(t, "bad")
		default:
			r.Kind = "cidr"
			r.IP = genIP(t, "ruleip")
			r.Bits = rapid.SampledFrom([]int{0, 1, 7, 8, 9, 15, 16, 23, 24, 25, 30, 31, 32, 32, 24, 24}).Draw(t, "bits")
		}
		rs = append(rs, r)
	}
	return rs
}

func genBL(t *rapid.T) BLCase {
	var c BLCase
	k := rapid.IntRange(1, 3).Draw(t, "nlists")
	for i := 0; i < k; i++ {
		c.Lists = append(c.Lists, genRules(t))
	}
	q := rapid.IntRange(1, 12).Draw(t, "nq")
	for i := 0; i < q; i++ {
		switch rapid.IntRange(0, 2).Draw(t, "qClass") {
		case 0:
			c.Queries = append(c.Queries, genIP(t, "q"))
		default: // endpoint of some rule +-1
			l := c.Lists[rapid.IntRange(0, len(c.Lists)-1).Draw(t, "ql")]
			var cidrs []Rule
			for _, r := range l {
				if r.Kind == "cidr" {
					cidrs = append(cidrs, r)
				}
			}
			if len(cidrs) == 0 {
				c.Queries = append(c.Queries, genIP(t, "q"))
				continue
			}
			r := cidrs[rapid.IntRange(0, len(cidrs)-1).Draw(t, "qr")]
			lo, hi := rangeOf(r)
			c.Queries = append(c.Queries, rapid.SampledFrom([]uint32{lo, lo - 1, lo + 1, hi, hi - 1, hi + 1}).Draw(t, "qe"))
		}
	}
	return c
}

func rangeOf(r Rule) (uint32, uint32) {
	var mask uint32
	if r.Bits > 0 {
		mask = ^uint32(0) << (32 - r.Bits)
	}
	lo := r.IP & mask
	return lo, lo | ^mask
}

func ipString(v uint32) string { return fmt.Sprintf("%d.%d.%d.%d", v>>24, v>>16&255, v>>8&255, v&255) }

func render(rs []Rule) (text string, valid int, invalid int) {
	var sb strings.Builder
	for _, r := range rs {
		sb.WriteString(r.Pre)
		switch r.Kind {
		case "cidr":
			fmt.Fprintf(&sb, "%s/%d", ipString(r.IP), r.Bits)
			valid++
		case "blank":
		case "comment":
			sb.WriteString(r.Text)
		default:
			sb.WriteString(r.Text)
			invalid++
		}
		sb.WriteString(r.Pre)
		sb.WriteString("\n")
	}
	return sb.String(), valid, invalid
}

func runBL(c BLCase) core.Result {
	bl := blocklist.New()
	var current []Rule // rules of the list that is in force
	res := core.Result{}
	overlap := false
	for li, rules := range c.Lists {
		text, valid, invalid := render(rules)
		n, err := bl.Reload(strings.NewReader(text))
		expectFail := valid == 0 && invalid > 0
		if expectFail != (err != nil) {
			return core.Failf("reload %d: %d valid and %d invalid lines, err=%v", li, valid, invalid, err)
		}
		if err == nil {
			if n != valid || bl.Len() != valid {
				return core.Failf("reload %d: loaded %d rules (Len %d), list has %d valid", li, n, bl.Len(), valid)
			}
			current = rules
		} else {
			res.Labels = append(res.Labels, "failed-reload-keeps-old")
		}
		// queries after each reload
		for _, q := range c.Queries {
			want := false
			hits := 0
			for _, r := range current {
				if r.Kind != "cidr" {
					continue
				}
				lo, hi := rangeOf(r)
				if lo <= q && q <= hi {
					want = true
					hits++
				}
			}
			if hits > 1 {
				overlap = true
			}
			ip := make(net.IP, 4)
			binary.BigEndian.PutUint32(ip, q)
			if got := bl.Blocked(ip); got != want {
				return core.Failf("after reload %d: Blocked(%s) = %v, linear scan over the list in force says %v", li, ipString(q), got, want)
			}
			if got := bl.Blocked(ip.To16()); got != want {
				return core.Failf("after reload %d: Blocked(16-byte form of %s) = %v, want %v", li, ipString(q), got, want)
			}
		}
	}
	if overlap {
		res.Labels = append(res.Labels, "overlapping-hit")
	}
	res.Nontrivial = len(current) >= 2
	return res
}

func TestBlocklist(t *testing.T) { core.Run(t, "c18.blocklist", genBL, runBL) }

// ---- addrlist vs model ----

type ALOp struct {
	Op     string   `json:"op"` // push | pop | reset
	Addrs  []ALAddr `json:"addrs,omitempty"`
	Source int      `json:"source,omitempty"`
	N      int      `json:"n,omitempty"`
}
type ALAddr struct {
	IP   uint32 `json:"ip"`
	Port int    `json:"port"`
}
type ALCase struct {
	Max        int    `json:"max"`
	ListenPort int    `json:"listen_port"`
	ClientIP   uint32 `json:"client_ip"` // 0 = unknown
	Blocked    []Rule `json:"blocked"`
	Ops        []ALOp `json:"ops"`
}

var alIPs = []uint32{0x05050101, 0x05050301, 0x05050102, 0x05060101, 0x7f000001, 0x7f000002, 0x0a000001, 0x0a000002, 0x0a000101, 0x62010203, 0x62010204, 0x62020203, 0xc0a80101}

func genAL(t *rapid.T) ALCase {
	c := ALCase{Max: rapid.IntRange(1, 10).Draw(t, "max"), ListenPort: rapid.SampledFrom([]int{6881, 50000}).Draw(t, "lport")}
	if rapid.Bool().Draw(t, "hasClientIP") {
		c.ClientIP = rapid.SampledFrom(alIPs).Draw(t, "clientip")
	}
	for i := rapid.IntRange(0, 3).Draw(t, "nblocked"); i > 0; i-- {
		c.Blocked = append(c.Blocked, Rule{Kind: "cidr", IP: rapid.SampledFrom(alIPs).Draw(t, "bip"), Bits: rapid.SampledFrom([]int{16, 24, 32}).Draw(t, "bbits")})
	}
	n := rapid.IntRange(1, 25).Draw(t, "nops")
	for i := 0; i < n; i++ {
		switch rapid.IntRange(0, 9).Draw(t, "op") {
		case 0:
			c.Ops = append(c.Ops, ALOp{Op: "reset"})
		case 1, 2, 3:
			c.Ops = append(c.Ops, ALOp{Op: "pop", N: rapid.IntRange(1, 4).Draw(t, "npop")})
		default:
			op := ALOp{Op: "push", Source: rapid.IntRange(0, 3).Draw(t, "source")}
			for k := rapid.IntRange(0, 6).Draw(t, "naddr"); k > 0; k-- {
				a := ALAddr{Port: rapid.SampledFrom([]int{0, 1, 6881, 50000, 51413, 65535}).Draw(t, "port")}
				if rapid.IntRange(0, 3).Draw(t, "ipRnd") == 0 {
					a.IP = rapid.Uint32().Draw(t, "ip")
				} else {
					a.IP = rapid.SampledFrom(alIPs).Draw(t, "ip")
				}
				op.Addrs = append(op.Addrs, a)
			}
			c.Ops = append(c.Ops, op)
		}
	}
	return c
}

var castagnoli = crc32.MakeTable(crc32.Castagnoli)

// bep40 is an independent implementation of the canonical peer priority (BEP 40) for IPv4.
func bep40(aip uint32, aport int, bip uint32, bport int) uint32 {
	var x, y []byte
	if aip == bip {
		x = binary.BigEndian.AppendUint16(nil, uint16(aport))
		y = binary.BigEndian.AppendUint16(nil, uint16(bport))
	} else {
		mask := uint32(0xffff5555)
		if aip>>16 == bip>>16 {
			mask = 0xffffff55
			if aip>>8 == bip>>8 {
				mask = 0xffffffff
			}
		}
		x = binary.BigEndian.AppendUint32(nil, aip&mask)
		y = binary.BigEndian.AppendUint32(nil, bip&mask)
	}
	if string(x) > string(y) {
		x, y = y, x
	}
	return crc32.Checksum(append(x, y...), castagnoli)
}

type mEntry struct {
	a      ALAddr
	prio   uint32
	source int
	batch  int
}

func runAL(c ALCase) core.Result {
	bl := blocklist.New()
	text, _, _ := render(c.Blocked)
	if len(c.Blocked) > 0 {
		if _, err := bl.Reload(strings.NewReader(text)); err != nil {
			panic(err)
		}
	}
	var clientIP net.IP
	if c.ClientIP != 0 {
		clientIP = make(net.IP, 4)
		binary.BigEndian.PutUint32(clientIP, c.ClientIP)
	}
	al := addrlist.New(c.Max, bl, c.ListenPort, &clientIP)
	// model: entries certainly present + batches of which only a known number survive (which ones is free)
	certain := map[uint32]*mEntry{} // by priority
	type unc struct {
		entries map[uint32]*mEntry
		remain  int
	}
	var uncertain []*unc
	batch := 0
	total := func() int {
		n := len(certain)
		for _, u := range uncertain {
			n += u.remain
		}
		return n
	}
	blocked := func(ip uint32) bool {
		for _, r := range c.Blocked {
			lo, hi := rangeOf(r)
			if lo <= ip && ip <= hi {
				return true
			}
		}
		return false
	}
	res := core.Result{}
	lab := map[string]bool{}
	for oi, op := range c.Ops {
		switch op.Op {
		case "reset":
			al.Reset()
			certain = map[uint32]*mEntry{}
			uncertain = nil
		case "push":
			batch++
			var addrs []*net.TCPAddr
			for _, a := range op.Addrs {
				ip := make(net.IP, 4)
				binary.BigEndian.PutUint32(ip, a.IP)
				addrs = append(addrs, &net.TCPAddr{IP: ip, Port: a.Port})
				// documented filters
				if a.Port == 0 {
					lab["port0"] = true
					continue
				}
				if a.IP>>24 == 127 && a.Port == c.ListenPort {
					lab["own-loopback"] = true
					continue
				}
				// own listening address: the client's IP (as learned from peers) together with its listening port
				if c.ClientIP != 0 && a.IP == c.ClientIP && a.Port == c.ListenPort {
					lab["own-ip"] = true
					continue
				}
				if blocked(a.IP) {
					lab["blocked"] = true
					continue
				}
				p := bep40(a.IP, a.Port, c.ClientIP, c.ListenPort)
				e := &mEntry{a: a, prio: p, source: op.Source, batch: batch}
				// same priority replaces whatever holds it
				if _, ok := certain[p]; ok {
					lab["priority-collision"] = true
				}
				delete(certain, p)
				for _, u := range uncertain {
					if _, ok := u.entries[p]; ok {
						// the colliding old entry may or may not have survived: if it had, it is replaced (count unchanged);
						// if not, count grows. The count becomes ambiguous -> stop tracking exact counts for this case.
						lab["ambiguous"] = true
					}
				}
				certain[p] = e
			}
			al.Push(addrs, peersource.Source(op.Source))
			if lab["ambiguous"] {
				res.Labels = append(res.Labels, "ambiguous-collision-with-evicted-batch")
				res.Inconcl = "priority collision with a partially evicted batch: model count ambiguous"
				return res
			}
			// eviction: oldest batches first
			if over := total() - c.Max; over > 0 {
				lab["eviction"] = true
				for over > 0 {
					// oldest uncertain batch first
					if len(uncertain) > 0 {
						u := uncertain[0]
						k := min(over, u.remain)
						u.remain -= k
						over -= k
						if u.remain == 0 {
							uncertain = uncertain[1:]
						}
						continue
					}
					// oldest batch among certain entries
					oldest := 1 << 30
					for _, e := range certain {
						if e.batch < oldest {
							oldest = e.batch
						}
					}
					u := &unc{entries: map[uint32]*mEntry{}}
					for p, e := range certain {
						if e.batch == oldest {
							u.entries[p] = e
							delete(certain, p)
						}
					}
					u.remain = len(u.entries)
					uncertain = append([]*unc{u}, uncertain...)
				}
			}
		case "pop":
			for k := 0; k < op.N; k++ {
				addr, src := al.Pop()
				if addr == nil {
					if total() != 0 {
						return core.Failf("op %d: Pop returned nothing, model holds %d addresses", oi, total())
					}
					continue
				}
				if total() == 0 {
					return core.Failf("op %d: Pop returned %v from a list the model says is empty", oi, addr)
				}
				ip := binary.BigEndian.Uint32(addr.IP.To4())
				got := ALAddr{IP: ip, Port: addr.Port}
				p := bep40(ip, addr.Port, c.ClientIP, c.ListenPort)
				var maxCertain uint32
				for q := range certain {
					if q > maxCertain {
						maxCertain = q
					}
				}
				if e, ok := certain[p]; ok && e.a == got {
					if p < maxCertain {
						return core.Failf("op %d: popped %s:%d (priority %#x) while %#x with higher priority is queued", oi, ipString(ip), addr.Port, p, maxCertain)
					}
					if int(src) != e.source {
						return core.Failf("op %d: popped %s:%d with source %v, pushed with %v", oi, ipString(ip), addr.Port, src, peersource.Source(e.source))
					}
					delete(certain, p)
					continue
				}
				found := false
				for ui, u := range uncertain {
					if e, ok := u.entries[p]; ok && e.a == got && u.remain > 0 {
						if p < maxCertain {
							return core.Failf("op %d: popped %s:%d (priority %#x) while %#x with higher priority is queued", oi, ipString(ip), addr.Port, p, maxCertain)
						}
						delete(u.entries, p)
						u.remain--
						if u.remain == 0 {
							uncertain = append(uncertain[:ui], uncertain[ui+1:]...)
						}
						found = true
						break
					}
				}
				if !found {
					return core.Failf("op %d: popped %s:%d which was never pushed, was filtered, evicted, or already popped", oi, ipString(ip), addr.Port)
				}
				if a := got; a.Port == 0 || blocked(a.IP) || (c.ClientIP != 0 && a.IP == c.ClientIP && a.Port == c.ListenPort) {
					return core.Failf("op %d: popped a filtered address %s:%d", oi, ipString(ip), addr.Port)
				}
			}
		}
		// invariants after every op
		if al.Len() > c.Max {
			return core.Failf("op %d: Len %d exceeds cap %d", oi, al.Len(), c.Max)
		}
		if al.Len() != total() {
			return core.Failf("op %d (%s): Len %d, model %d", oi, op.Op, al.Len(), total())
		}
		sum := 0
		for s := 0; s <= 4; s++ {
			n := al.LenSource(peersource.Source(s))
			if n < 0 {
				return core.Failf("op %d: LenSource(%d) = %d", oi, s, n)
			}
			sum += n
		}
		if sum != al.Len() {
			return core.Failf("op %d (%s): per-source counts sum to %d, Len is %d", oi, op.Op, sum, al.Len())
		}
	}
	for k := range lab {
		res.Labels = append(res.Labels, k)
	}
	sort.Strings(res.Labels)
	res.Nontrivial = lab["eviction"] || lab["priority-collision"] || lab["blocked"] || lab["port0"] || lab["own-ip"] || lab["own-loopback"]
	return res
}

func TestAddrList(t *testing.T) { core.Run(t, "c18.addrlist", genAL, runAL) }

func TestBEP40Vectors(t *testing.T) {
	ip := func(s string) uint32 { return binary.BigEndian.Uint32(net.ParseIP(s).To4()) }
	if v := bep40(ip("123.213.32.10"), 0, ip("98.76.54.32"), 0); v != 0xec2d7224 {
		t.Fatalf("%#x", v)
	}
	if v := bep40(ip("123.213.32.10"), 0, ip("123.213.32.234"), 0); v != 0x99568189 {
		t.Fatalf("%#x", v)
	}
}
