package c18

import (
	"bytes"
	"fmt"
	"io"
	"net"
	"net/http"
	"sort"
	"strings"
	"sync"
	"sync/atomic"
	"testing"
	"time"

	"github.com/cenkalti/rain/v2/torrent"
	"github.com/cenkalti/rain/v2/verifharness/core"
	"github.com/cenkalti/rain/v2/verifharness/model"
	"github.com/cenkalti/rain/v2/verifharness/refwire"
	"github.com/cenkalti/rain/v2/verifharness/sess"
	"github.com/cenkalti/rain/v2/verifharness/speer"
	"github.com/cenkalti/rain/v2/verifharness/sstore"
	"github.com/cenkalti/rain/v2/verifharness/strk"
	"pgregory.net/rapid"
)

// c18.session: a real leeching session with a blocklist fetched from a scripted HTTP server. Candidate peer
// addresses reach it by hand (AddPeer), in a tracker reply and in a ut_pex message; trackers sit on blocked and
// unblocked addresses; scripted peers dial in from blocked and unblocked addresses; the list is replaced by a
// reload. Every blocked address has a listener (or a recording tracker) on it, so "never contacted" is observed
// where the contact would arrive, and every unblocked twin must be contacted (otherwise the case proves nothing).
type BLPeer struct {
	Blocked bool   `json:"blocked"`
	Wide    bool   `json:"wide"` // blocked by a /16 around it instead of a /32
	Via     string `json:"via"`  // manual | tracker | pex
}
type BLTrk struct {
	UDP     bool `json:"udp"`
	Blocked bool `json:"blocked"`
	Wide    bool `json:"wide"`
}
type BSCase struct {
	L        model.Layout `json:"layout"`
	Peers    []BLPeer     `json:"peers"`
	Trackers []BLTrk      `json:"trackers"`
	Incoming []BLPeer     `json:"incoming"`
	EnOut    bool         `json:"enabled_outgoing"`
	EnIn     bool         `json:"enabled_incoming"`
	EnTrk    bool         `json:"enabled_trackers"`
	Reload   []BLPeer     `json:"after_reload"` // listeners announced after the list was replaced; Blocked refers to the new list
	SameIP   bool         `json:"two_ports_one_ip"`
	// Ban > 0: a scripted seeder that corrupts every block gets itself banned; afterwards its IP is announced again on
	// Ban other ports, next to each other in one tracker reply and in one ut_pex message.
	Ban int `json:"banned_ip_ports"`
}

func genBS(t *rapid.T) BSCase {
	c := BSCase{L: model.GenLayout(t, model.LayoutOpts{MaxTotal: 64 << 10, MaxPieces: 4, MaxFiles: 2, NoPadding: true, BigPieces: true})}
	genPeer := func(vias []string) BLPeer {
		return BLPeer{Blocked: rapid.Bool().Draw(t, "blocked"), Wide: rapid.IntRange(0, 3).Draw(t, "wide") == 0, Via: rapid.SampledFrom(vias).Draw(t, "via")}
	}
	for i := rapid.IntRange(2, 8).Draw(t, "npeers"); i > 0; i-- {
		c.Peers = append(c.Peers, genPeer([]string{"manual", "tracker", "pex"}))
	}
	for i := rapid.IntRange(0, 4).Draw(t, "ntrackers"); i > 0; i-- {
		c.Trackers = append(c.Trackers, BLTrk{UDP: rapid.Bool().Draw(t, "udp"), Blocked: rapid.Bool().Draw(t, "tblocked"), Wide: rapid.IntRange(0, 3).Draw(t, "twide") == 0})
	}
	for i := rapid.IntRange(0, 4).Draw(t, "nincoming"); i > 0; i-- {
		c.Incoming = append(c.Incoming, genPeer([]string{"in"}))
	}
	on := func(l string) bool { return rapid.IntRange(0, 4).Draw(t, l) != 0 }
	c.EnOut, c.EnIn, c.EnTrk = on("enOut"), on("enIn"), on("enTrk")
	if rapid.IntRange(0, 2).Draw(t, "reload") == 0 {
		for i := rapid.IntRange(1, 3).Draw(t, "nreload"); i > 0; i-- {
			c.Reload = append(c.Reload, genPeer([]string{"manual"}))
		}
	}
	c.SameIP = rapid.IntRange(0, 3).Draw(t, "sameIP") == 0
	if rapid.IntRange(0, 2).Draw(t, "ban") == 0 {
		c.Ban = rapid.IntRange(1, 4).Draw(t, "banPorts")
	}
	return c
}

type listener struct {
	ln       net.Listener
	accepted atomic.Int64
}

// spans records [accepted, close noticed) of every connection to a group of listeners.
type spans struct {
	mu sync.Mutex
	s  []*[2]time.Time
}

// maxOverlap: the client closes a connection before it dials the next one, but the listener may notice the close
// after it has accepted the next connection, so a connection counts as open until 150 ms before its close was noticed.
func (sp *spans) maxOverlap() int {
	sp.mu.Lock()
	defer sp.mu.Unlock()
	now := time.Now()
	best := 0
	for _, a := range sp.s {
		n := 0
		for _, b := range sp.s {
			to := b[1]
			if to.IsZero() {
				to = now
			} else {
				to = to.Add(-150 * time.Millisecond)
			}
			if !b[0].After(a[0]) && to.After(a[0]) {
				n++
			}
		}
		best = max(best, n)
	}
	return best
}

func listen(ip string, sp *spans) *listener {
	ln, err := net.Listen("tcp4", ip+":0")
	if err != nil {
		panic(err)
	}
	l := &listener{ln: ln}
	go func() {
		for {
			conn, err := ln.Accept()
			if err != nil {
				return
			}
			l.accepted.Add(1)
			var span *[2]time.Time
			if sp != nil {
				span = &[2]time.Time{time.Now()}
				sp.mu.Lock()
				sp.s = append(sp.s, span)
				sp.mu.Unlock()
			}
			go func() {
				// hold the connection: answer nothing, read until the client gives up
				io.Copy(io.Discard, conn)
				conn.Close()
				if sp != nil {
					sp.mu.Lock()
					span[1] = time.Now()
					sp.mu.Unlock()
				}
			}()
		}
	}()
	return l
}

func cidr(ip string, wide bool) string {
	if !wide {
		return ip + "/32"
	}
	p := strings.Split(ip, ".")
	return p[0] + "." + p[1] + ".0.0/16"
}

func compactAddr(a net.Addr) []byte {
	ta := a.(*net.TCPAddr)
	return append(append([]byte(nil), ta.IP.To4()...), byte(ta.Port>>8), byte(ta.Port))
}

func runBS(c BSCase) core.Result {
	l := &c.L
	F := l.Flat()
	ih := l.InfoHash(F)
	dir, cleanup := sess.Scratch("c18")
	defer cleanup()
	cfg := sess.Config(dir)
	cfg.PEXEnabled = true
	cfg.BlocklistEnabledForOutgoingConnections, cfg.BlocklistEnabledForIncomingConnections, cfg.BlocklistEnabledForTrackers = c.EnOut, c.EnIn, c.EnTrk
	cfg.PeerHandshakeTimeout = 700 * time.Millisecond
	cfg.PeerConnectTimeout = 700 * time.Millisecond
	cfg.CustomStorage = sstore.NewProvider()
	lab := map[string]bool{}

	// addresses: peers 10.., reload peers 30.., trackers 45.., incoming dialers 70..
	var rules []string
	rules = append(rules, "# harness blocklist", "", "10.0.0.0/8", "192.168.1.0/24", "not-a-rule", "::1/128")
	peerIP := func(i int) string { return sess.IP(10 + i) }
	for i, p := range c.Peers {
		if p.Blocked {
			rules = append(rules, cidr(peerIP(i), p.Wide))
		}
	}
	for i, tr := range c.Trackers {
		if tr.Blocked {
			rules = append(rules, cidr(sess.IP(45+i), tr.Wide))
		}
	}
	for i, p := range c.Incoming {
		if p.Blocked {
			rules = append(rules, cidr(sess.IP(70+i), p.Wide))
		}
	}
	listA := strings.Join(rules, "\n") + "\n"
	rulesB := append([]string(nil), rules...)
	for i, p := range c.Reload {
		if p.Blocked {
			rulesB = append(rulesB, cidr(sess.IP(30+i), p.Wide))
		}
	}
	listB := strings.Join(rulesB, "\n") + "\n"
	var fetches atomic.Int64
	var serveB atomic.Bool
	bln, err := net.Listen("tcp4", sess.IP(3)+":0")
	if err != nil {
		panic(err)
	}
	bsrv := &http.Server{Handler: http.HandlerFunc(func(w http.ResponseWriter, r *http.Request) {
		body := listA
		if serveB.Load() {
			body = listB
		}
		w.Header().Set("Content-Length", fmt.Sprint(len(body)))
		w.Write([]byte(body))
		fetches.Add(1)
	})}
	go bsrv.Serve(bln)
	defer bsrv.Close()
	cfg.BlocklistURL = "http://" + bln.Addr().String() + "/list.txt"
	cfg.BlocklistUpdateInterval = 2500 * time.Millisecond
	cfg.BlocklistUpdateTimeout = 2 * time.Second

	// listeners
	var lns []*listener
	twinSpans := &spans{}
	for i := range c.Peers {
		lns = append(lns, listen(peerIP(i), nil))
	}
	defer func() {
		for _, l := range lns {
			l.ln.Close()
		}
	}()
	// optional: two ports on one unblocked address (announced by hand): never two connections to one IP at a time
	var twin [2]*listener
	if c.SameIP {
		twin[0] = listen(sess.IP(9), twinSpans)
		twin[1] = listen(sess.IP(9), twinSpans)
		defer twin[0].ln.Close()
		defer twin[1].ln.Close()
	}
	// trackers: a dedicated unblocked one delivers the "tracker" peers
	var trackerPeers []byte
	for i, p := range c.Peers {
		if p.Via == "tracker" {
			trackerPeers = append(trackerPeers, compactAddr(lns[i].ln.Addr())...)
		}
	}
	var carrierBody atomic.Value
	carrierBody.Store(model.Benc(map[string]any{"interval": int64(60), "peers": string(trackerPeers)}))
	carrier, err := strk.NewHTTP(sess.IP(4)+":0", func(n int, r strk.HTTPReq) []byte { return strk.OKResponse(carrierBody.Load().([]byte)) })
	if err != nil {
		return core.Result{Inconcl: "tracker: " + err.Error()}
	}
	defer carrier.Close()
	tiers := [][]string{{carrier.URL()}}
	type trk struct {
		h *strk.HTTPTracker
		u *strk.UDPTracker
	}
	var trks []trk
	emptyBody := model.Benc(map[string]any{"interval": int64(60), "peers": ""})
	for i, tr := range c.Trackers {
		addr := sess.IP(45+i) + ":0"
		if tr.UDP {
			u, err := strk.NewUDP(addr, func(n int, r strk.UDPReq) [][]byte {
				if r.Action == 0 {
					return [][]byte{strk.ConnectReply(r.TID, 7)}
				}
				return [][]byte{strk.AnnounceReply(r.TID, 60, 0, 0, nil)}
			})
			if err != nil {
				return core.Result{Inconcl: "udp tracker: " + err.Error()}
			}
			defer u.Close()
			trks = append(trks, trk{u: u})
			tiers = append(tiers, []string{u.URL()})
		} else {
			h, err := strk.NewHTTP(addr, func(n int, r strk.HTTPReq) []byte { return strk.OKResponse(emptyBody) })
			if err != nil {
				return core.Result{Inconcl: "http tracker: " + err.Error()}
			}
			defer h.Close()
			trks = append(trks, trk{h: h})
			tiers = append(tiers, []string{h.URL()})
		}
	}

	ses, err := torrent.NewSession(cfg)
	if err != nil {
		return core.Result{Inconcl: "session: " + err.Error()}
	}
	defer ses.Close()
	if fetches.Load() == 0 {
		return core.Failf("the session started without fetching the configured blocklist")
	}
	tor, err := ses.AddTorrent(bytes.NewReader(l.Metainfo(F, tiers, nil)), nil)
	if err != nil {
		return core.Failf("adding a valid torrent failed: %v", err)
	}
	clientAddr := fmt.Sprintf("%s:%d", sess.IP(0), tor.Port())
	for i := 0; i < 300 && tor.Stats().Status != torrent.Downloading; i++ {
		time.Sleep(10 * time.Millisecond)
	}
	for i, p := range c.Peers {
		if p.Via == "manual" {
			_ = tor.AddPeer(lns[i].ln.Addr().String())
		}
	}
	if c.SameIP {
		_ = tor.AddPeer(twin[0].ln.Addr().String())
		_ = tor.AddPeer(twin[1].ln.Addr().String())
	}
	// the corrupting seeder that will get its address banned
	banIP := sess.IP(8)
	var corrupter net.Listener
	corruptClosed := make(chan struct{}, 8)
	var corruptServed atomic.Int64
	if c.Ban > 0 {
		corrupter, err = net.Listen("tcp4", banIP+":0")
		if err != nil {
			panic(err)
		}
		defer corrupter.Close()
		go func() {
			for {
				conn, err := corrupter.Accept()
				if err != nil {
					return
				}
				go func() {
					var id [20]byte
					copy(id[:], "-CR0001-corrupter000")
					p, err := speer.Accept(conn, speer.Opts{InfoHash: ih, PeerID: id, Fast: true, Ext: true, Reqq: 250, MSEOptional: true}, 3*time.Second)
					if err != nil {
						return
					}
					srv := speer.Serve(p, speer.Behaviour{CorruptAll: true}, F, int(l.PieceLength))
					<-srv.Done()
					served, _, _, _, _, _ := srv.Snapshot()
					corruptServed.Add(int64(served))
					corruptClosed <- struct{}{}
				}()
			}
		}()
		_ = tor.AddPeer(corrupter.Addr().String())
	}
	// PEX carrier
	var pexPeers []byte
	for i, p := range c.Peers {
		if p.Via == "pex" {
			pexPeers = append(pexPeers, compactAddr(lns[i].ln.Addr())...)
		}
	}
	pexSent := false
	var pexCarrier *speer.Peer
	if len(pexPeers) > 0 || c.Ban > 0 {
		var id [20]byte
		copy(id[:], "-PX0001-carrier00000")
		var p *speer.Peer
		for try := 0; try < 40; try++ {
			p, err = speer.Dial(sess.IP(5), clientAddr, speer.Opts{InfoHash: ih, PeerID: id, Fast: true, Ext: true, AdvertisePex: true, Reqq: 250}, 2*time.Second)
			if err == nil || !strings.Contains(err.Error(), "refused") {
				break
			}
			time.Sleep(25 * time.Millisecond)
		}
		if err == nil {
			defer p.Close()
			p.Send(refwire.Msg{Kind: "havenone"})
			p.Barrier(2 * time.Second)
			pid := 2
			if v, ok := p.ClientM["ut_pex"]; ok {
				pid = v
			}
			if len(pexPeers) > 0 {
				p.Send(refwire.Msg{Kind: "ext-pex", ExtID: uint8(pid), Added: pexPeers})
				p.Barrier(2 * time.Second)
				pexSent = true
			}
			pexCarrier = p
		}
	}
	// incoming connections
	type inRes struct {
		replied bool
		closed  bool
		err     string
	}
	ins := make([]inRes, len(c.Incoming))
	var wg sync.WaitGroup
	for i := range c.Incoming {
		i := i
		wg.Add(1)
		go func() {
			defer wg.Done()
			d := net.Dialer{Timeout: 2 * time.Second, LocalAddr: &net.TCPAddr{IP: net.ParseIP(sess.IP(70 + i))}}
			var conn net.Conn
			var err error
			for try := 0; try < 40; try++ {
				conn, err = d.Dial("tcp4", clientAddr)
				if err == nil || !strings.Contains(err.Error(), "refused") {
					break
				}
				time.Sleep(25 * time.Millisecond)
			}
			if err != nil {
				ins[i].err = err.Error()
				return
			}
			defer conn.Close()
			hs := append([]byte("\x13BitTorrent protocol"), refwireReserved()...)
			hs = append(hs, ih[:]...)
			hs = append(hs, []byte(fmt.Sprintf("-IN0001-%012d", i))...)
			conn.Write(hs)
			conn.SetReadDeadline(time.Now().Add(1500 * time.Millisecond))
			buf := make([]byte, 68)
			n, err := io.ReadFull(conn, buf)
			if n == 68 {
				ins[i].replied = true
			} else if err != nil && !strings.Contains(err.Error(), "timeout") {
				ins[i].closed = true
			}
		}()
	}
	wg.Wait()
	time.Sleep(1200 * time.Millisecond)

	// ---- judge phase 1 ----
	controlsOK := true
	for i, p := range c.Peers {
		n := lns[i].accepted.Load()
		if p.Blocked && c.EnOut && n > 0 {
			return core.Failf("peer %d (%s, learned via %s) is inside the blocklist (%s) and received %d connections from the client", i, lns[i].ln.Addr(), p.Via, cidr(peerIP(i), p.Wide), n)
		}
		if (!p.Blocked || !c.EnOut) && n == 0 {
			if p.Via == "pex" && !pexSent {
				continue
			}
			controlsOK = false
			lab["control-peer-not-contacted-"+p.Via] = true
		}
		if p.Blocked && c.EnOut {
			lab["blocked-peer-via-"+p.Via] = true
		}
	}
	for i, tr := range c.Trackers {
		var n int
		if trks[i].h != nil {
			n = len(trks[i].h.Requests())
		} else {
			n = len(trks[i].u.Requests())
		}
		kind := map[bool]string{true: "udp", false: "http"}[tr.UDP]
		if tr.Blocked && c.EnTrk && n > 0 {
			return core.Failf("%s tracker %d on %s is inside the blocklist (%s) and received %d requests", kind, i, sess.IP(45+i), cidr(sess.IP(45+i), tr.Wide), n)
		}
		if (!tr.Blocked || !c.EnTrk) && n == 0 {
			controlsOK = false
			lab["control-tracker-not-contacted"] = true
		}
		if tr.Blocked && c.EnTrk {
			lab["blocked-tracker-"+kind] = true
		}
	}
	for i, p := range c.Incoming {
		r := ins[i]
		if r.err != "" {
			continue
		}
		if p.Blocked && c.EnIn && r.replied {
			return core.Failf("incoming connection %d from %s, which is inside the blocklist (%s), was accepted: the client answered the handshake", i, sess.IP(70+i), cidr(sess.IP(70+i), p.Wide))
		}
		if (!p.Blocked || !c.EnIn) && !r.replied {
			controlsOK = false
			lab["control-incoming-not-answered"] = true
		}
		if p.Blocked && c.EnIn {
			lab["blocked-incoming"] = true
		}
	}
	if c.SameIP {
		if m := twinSpans.maxOverlap(); m > 1 {
			return core.Failf("%d simultaneous connections to %s (two listeners on one address): the client dialed an IP it was already connected or connecting to", m, sess.IP(9))
		}
		if twin[0].accepted.Load()+twin[1].accepted.Load() > 0 {
			lab["two-ports-one-ip"] = true
		}
	}
	// ---- banned IP ----
	if c.Ban > 0 {
		banned := false
		select {
		case <-corruptClosed:
			banned = corruptServed.Load() > 0
		case <-time.After(4 * time.Second):
		}
		if !banned {
			lab["ban-did-not-happen"] = true
		} else {
			// the same IP on other ports, next to each other, in front of an unrelated control address
			var bl []*listener
			var batch []byte
			for k := 0; k < c.Ban; k++ {
				ln := listen(banIP, nil)
				bl = append(bl, ln)
				batch = append(batch, compactAddr(ln.ln.Addr())...)
			}
			ctl := listen(sess.IP(7), nil)
			batch = append(batch, compactAddr(ctl.ln.Addr())...)
			defer func() {
				for _, b := range bl {
					b.ln.Close()
				}
				ctl.ln.Close()
			}()
			carrierBody.Store(model.Benc(map[string]any{"interval": int64(60), "peers": string(batch)}))
			before := len(carrier.Requests())
			tor.Announce()
			if pexCarrier != nil && !pexCarrier.Closed() {
				pid := 2
				if v, ok := pexCarrier.ClientM["ut_pex"]; ok {
					pid = v
				}
				pexCarrier.Send(refwire.Msg{Kind: "ext-pex", ExtID: uint8(pid), Added: batch})
				lab["banned-ip-via-pex"] = true
			}
			deadline := time.Now().Add(4 * time.Second)
			for len(carrier.Requests()) == before && time.Now().Before(deadline) {
				time.Sleep(20 * time.Millisecond)
			}
			if len(carrier.Requests()) > before {
				lab["banned-ip-via-tracker"] = true
			}
			time.Sleep(1500 * time.Millisecond)
			for k, b := range bl {
				if n := b.accepted.Load(); n > 0 {
					return core.Failf("%s was banned for sending corrupt data (%d corrupt blocks served, then disconnected); announced again on %d other ports in one batch, port #%d (%s) received %d connections", banIP, corruptServed.Load(), c.Ban, k, b.ln.Addr(), n)
				}
			}
			if ctl.accepted.Load() == 0 {
				controlsOK = false
				lab["control-peer-not-contacted-after-ban"] = true
			} else {
				lab["blocked-banned-ip"] = true
			}
		}
	}
	// ---- reload ----
	if len(c.Reload) > 0 {
		serveB.Store(true)
		before := fetches.Load()
		deadline := time.Now().Add(5 * time.Second)
		for fetches.Load() == before && time.Now().Before(deadline) {
			time.Sleep(20 * time.Millisecond)
		}
		if fetches.Load() == before {
			return core.Result{Inconcl: "the blocklist was not fetched again within 5 s (update interval 2.5 s)"}
		}
		time.Sleep(150 * time.Millisecond) // parse + swap
		var rl []*listener
		for i := range c.Reload {
			rl = append(rl, listen(sess.IP(30+i), nil))
		}
		defer func() {
			for _, l := range rl {
				l.ln.Close()
			}
		}()
		for i := range c.Reload {
			_ = tor.AddPeer(rl[i].ln.Addr().String())
		}
		time.Sleep(1200 * time.Millisecond)
		for i, p := range c.Reload {
			n := rl[i].accepted.Load()
			if p.Blocked && c.EnOut && n > 0 {
				return core.Failf("after the blocklist was reloaded with %s in it, the listener on %s received %d connections", cidr(sess.IP(30+i), p.Wide), rl[i].ln.Addr(), n)
			}
			if (!p.Blocked || !c.EnOut) && n == 0 {
				controlsOK = false
				lab["control-peer-not-contacted-after-reload"] = true
			}
			if p.Blocked && c.EnOut {
				lab["blocked-after-reload"] = true
			}
		}
	}
	res := core.Result{}
	blockedSomething := false
	for k := range lab {
		if strings.HasPrefix(k, "blocked-") {
			blockedSomething = true
		}
		res.Labels = append(res.Labels, k)
	}
	sort.Strings(res.Labels)
	// a case counts when something was blocked and every unblocked twin was in fact contacted
	res.Nontrivial = blockedSomething && controlsOK
	return res
}

func refwireReserved() []byte {
	r := refwire.ReservedBits(true, true, false)
	return r[:]
}

func TestSession(t *testing.T) { core.RunChild(t, "c18.session", genBS, runBS, 90*time.Second) }
