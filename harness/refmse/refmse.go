// Package refmse is an independent implementation of Message Stream Encryption (the Vuze/libtorrent
// obfuscation handshake), written from the specification, with explicit control over the pad lengths,
// the crypto offer/selection and write chunking. It is the reference endpoint of the C12 oracles.
package refmse

import (
	"bytes"
	"crypto/rc4"
	"crypto/sha1"
	"encoding/binary"
	"errors"
	"fmt"
	"io"
	"math/big"
)

const (
	Plain = 1
	RC4   = 2
)

var prime, _ = new(big.Int).SetString("FFFFFFFFFFFFFFFFC90FDAA22168C234C4C6628B80DC1CD129024E088A67CC74020BBEA63B139B22514A08798E3404DDEF9519B3CD3A431B302B0A6DF25F14374FE1356D6D51C245E485B576625E7EC6F44C42E9A63A36210000000000090563", 16)

// Opts steers one endpoint.
type Opts struct {
	SKeys   [][]byte // candidate stream keys (receiver); initiator uses SKeys[0]
	Pad1    int      // PadA (initiator) or PadB (receiver), 0..512
	Pad2    int      // PadC (initiator) or PadD (receiver), 0..512
	Provide uint32   // initiator: crypto_provide
	Select  func(provide uint32) uint32
	IA      []byte // initiator: initial payload
	Secret  []byte // DH private exponent bytes (non-zero); deterministic per case
	// TailPrefix > 0: the last TailPrefix bytes of the first pad are a prefix of the synchronisation marker
	// the peer scans for (repeated first byte + true prefix), the worst case for a scanning implementation.
	TailPrefix int
}

func craftPad(n int, marker []byte, k int) []byte {
	if k > n {
		k = n
	}
	if k >= len(marker) {
		k = len(marker) - 1
	}
	for ; ; k-- {
		b := padBytes(n, true)
		for i := 0; i < k; i++ {
			b[n-k+i] = marker[i]
		}
		// The pad must not *contain* the marker once the real marker follows it (a marker whose last bytes repeat
		// its first ones would otherwise complete early - with probability 1/256 for a 7-byte prefix - and the peer
		// would rightly synchronise there): the first occurrence in pad+marker has to be the real one.
		if bytes.Index(append(append([]byte(nil), b...), marker...), marker) == n || k == 0 {
			return b
		}
	}
}

// Conn is the established stream.
type Conn struct {
	rw       io.ReadWriter
	enc, dec *rc4.Cipher
	plain    bool
	pending  []byte // receiver: decrypted IA to be read first
	Selected uint32
	Provided uint32
}

func (c *Conn) Read(p []byte) (int, error) {
	if len(c.pending) > 0 {
		n := copy(p, c.pending)
		c.pending = c.pending[n:]
		return n, nil
	}
	n, err := c.rw.Read(p)
	if !c.plain {
		c.dec.XORKeyStream(p[:n], p[:n])
	}
	return n, err
}

func (c *Conn) Write(p []byte) (int, error) {
	if c.plain {
		return c.rw.Write(p)
	}
	q := make([]byte, len(p))
	c.enc.XORKeyStream(q, p)
	return c.rw.Write(q)
}

func pad96(x *big.Int) []byte {
	b := x.Bytes()
	out := make([]byte, 96)
	copy(out[96-len(b):], b)
	return out
}

func h(parts ...[]byte) []byte {
	s := sha1.New()
	for _, p := range parts {
		s.Write(p)
	}
	return s.Sum(nil)
}

func xor(a, b []byte) []byte {
	out := make([]byte, len(a))
	for i := range a {
		out[i] = a[i] ^ b[i]
	}
	return out
}

func newRC4(key []byte) *rc4.Cipher {
	c, _ := rc4.NewCipher(key)
	var drop [1024]byte
	c.XORKeyStream(drop[:], drop[:])
	return c
}

func padBytes(n int, random bool) []byte {
	b := make([]byte, n)
	if random {
		for i := range b {
			b[i] = byte(i*131 + 7)
		}
	}
	return b
}

// scan reads from r until the last len(marker) bytes equal marker, consuming at most limit bytes in total.
func scan(r io.Reader, marker []byte, limit int) error {
	win := make([]byte, 0, len(marker))
	one := make([]byte, 1)
	for n := 0; n < limit; n++ {
		if _, err := io.ReadFull(r, one); err != nil {
			return err
		}
		if len(win) == len(marker) {
			copy(win, win[1:])
			win[len(win)-1] = one[0]
		} else {
			win = append(win, one[0])
		}
		if len(win) == len(marker) && bytes.Equal(win, marker) {
			return nil
		}
	}
	return errors.New("refmse: synchronisation marker not found")
}

// Initiate runs the initiator side (A).
func Initiate(rw io.ReadWriter, o Opts) (*Conn, error) {
	xa := new(big.Int).SetBytes(o.Secret)
	ya := new(big.Int).Exp(big.NewInt(2), xa, prime)
	if o.TailPrefix == 0 {
		if _, err := rw.Write(append(pad96(ya), padBytes(o.Pad1, true)...)); err != nil {
			return nil, err
		}
	} else if _, err := rw.Write(pad96(ya)); err != nil {
		return nil, err
	}
	ybb := make([]byte, 96)
	if _, err := io.ReadFull(rw, ybb); err != nil {
		return nil, err
	}
	S := pad96(new(big.Int).Exp(new(big.Int).SetBytes(ybb), xa, prime))
	if o.TailPrefix > 0 { // PadA sent late (legal: it is only a fragmentation of the stream), tail crafted from req1
		if _, err := rw.Write(craftPad(o.Pad1, h([]byte("req1"), S), o.TailPrefix)); err != nil {
			return nil, err
		}
	}
	skey := o.SKeys[0]
	enc := newRC4(h([]byte("keyA"), S, skey))
	dec := newRC4(h([]byte("keyB"), S, skey))
	var msg []byte
	msg = append(msg, h([]byte("req1"), S)...)
	msg = append(msg, xor(h([]byte("req2"), skey), h([]byte("req3"), S))...)
	var tail []byte
	tail = append(tail, make([]byte, 8)...)
	tail = binary.BigEndian.AppendUint32(tail, o.Provide)
	tail = binary.BigEndian.AppendUint16(tail, uint16(o.Pad2))
	tail = append(tail, padBytes(o.Pad2, false)...)
	tail = binary.BigEndian.AppendUint16(tail, uint16(len(o.IA)))
	tail = append(tail, o.IA...)
	enc.XORKeyStream(tail, tail)
	if _, err := rw.Write(append(msg, tail...)); err != nil {
		return nil, err
	}
	// B->A: PadB remainder, ENCRYPT(VC, crypto_select, len(padD), padD)
	vcEnc := make([]byte, 8)
	dec.XORKeyStream(vcEnc, vcEnc)
	if err := scan(rw, vcEnc, 512+8); err != nil {
		return nil, err
	}
	hdr := make([]byte, 6)
	if _, err := io.ReadFull(rw, hdr); err != nil {
		return nil, err
	}
	dec.XORKeyStream(hdr, hdr)
	sel := binary.BigEndian.Uint32(hdr)
	padD := int(binary.BigEndian.Uint16(hdr[4:]))
	if sel == 0 || sel&(sel-1) != 0 || sel&o.Provide == 0 {
		return nil, fmt.Errorf("refmse: bad crypto_select %d for provide %d", sel, o.Provide)
	}
	if padD > 512 {
		return nil, fmt.Errorf("refmse: padD %d", padD)
	}
	pd := make([]byte, padD)
	if _, err := io.ReadFull(rw, pd); err != nil {
		return nil, err
	}
	dec.XORKeyStream(pd, pd)
	return &Conn{rw: rw, enc: enc, dec: dec, plain: sel == Plain, Selected: sel, Provided: o.Provide}, nil
}

// Receive runs the receiver side (B). It returns the stream; the initial payload is delivered by Read first.
func Receive(rw io.ReadWriter, o Opts) (*Conn, error) {
	yab := make([]byte, 96)
	if _, err := io.ReadFull(rw, yab); err != nil {
		return nil, err
	}
	xb := new(big.Int).SetBytes(o.Secret)
	yb := new(big.Int).Exp(big.NewInt(2), xb, prime)
	S := pad96(new(big.Int).Exp(new(big.Int).SetBytes(yab), xb, prime))
	padB := padBytes(o.Pad1, true)
	if o.TailPrefix > 0 { // the initiator will scan for ENCRYPT(VC) under keyB: predictable if it uses our first key
		vcEnc := make([]byte, 8)
		newRC4(h([]byte("keyB"), S, o.SKeys[0])).XORKeyStream(vcEnc, vcEnc)
		padB = craftPad(o.Pad1, vcEnc, o.TailPrefix)
	}
	if _, err := rw.Write(append(pad96(yb), padB...)); err != nil {
		return nil, err
	}
	if err := scan(rw, h([]byte("req1"), S), 512+20); err != nil {
		return nil, err
	}
	hk := make([]byte, 20)
	if _, err := io.ReadFull(rw, hk); err != nil {
		return nil, err
	}
	want := xor(hk, h([]byte("req3"), S))
	var skey []byte
	for _, k := range o.SKeys {
		if bytes.Equal(h([]byte("req2"), k), want) {
			skey = k
		}
	}
	if skey == nil {
		return nil, errors.New("refmse: unknown stream key")
	}
	enc := newRC4(h([]byte("keyB"), S, skey))
	dec := newRC4(h([]byte("keyA"), S, skey))
	hdr := make([]byte, 14)
	if _, err := io.ReadFull(rw, hdr); err != nil {
		return nil, err
	}
	dec.XORKeyStream(hdr, hdr)
	if !bytes.Equal(hdr[:8], make([]byte, 8)) {
		return nil, errors.New("refmse: bad VC")
	}
	provide := binary.BigEndian.Uint32(hdr[8:])
	padC := int(binary.BigEndian.Uint16(hdr[12:]))
	if padC > 512 {
		return nil, fmt.Errorf("refmse: padC %d", padC)
	}
	rest := make([]byte, padC+2)
	if _, err := io.ReadFull(rw, rest); err != nil {
		return nil, err
	}
	dec.XORKeyStream(rest, rest)
	iaLen := int(binary.BigEndian.Uint16(rest[padC:]))
	ia := make([]byte, iaLen)
	if _, err := io.ReadFull(rw, ia); err != nil {
		return nil, err
	}
	dec.XORKeyStream(ia, ia)
	sel := o.Select(provide)
	if sel == 0 {
		return nil, errors.New("refmse: nothing selected")
	}
	var out []byte
	out = append(out, make([]byte, 8)...)
	out = binary.BigEndian.AppendUint32(out, sel)
	out = binary.BigEndian.AppendUint16(out, uint16(o.Pad2))
	out = append(out, padBytes(o.Pad2, false)...)
	enc.XORKeyStream(out, out)
	if _, err := rw.Write(out); err != nil {
		return nil, err
	}
	return &Conn{rw: rw, enc: enc, dec: dec, plain: sel == Plain, pending: ia, Selected: sel, Provided: provide}, nil
}
