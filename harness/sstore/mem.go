// Package sstore holds storage doubles injected through Config.CustomStorage or handed to the allocator.
package sstore

import (
	"fmt"
	"io"
	"sync"

	"github.com/cenkalti/rain/v2/internal/storage"
)

// Op is one recorded storage call.
type Op struct {
	Seq  int    `json:"seq"`
	Kind string `json:"kind"` // open, read, write, close
	Name string `json:"name"`
	Off  int64  `json:"off,omitempty"`
	Len  int    `json:"len,omitempty"`
	Data []byte `json:"-"`
}

// Mem is an in-memory storage.Storage that records every call.
type Mem struct {
	mu       sync.Mutex
	Files    map[string]*MemFile
	Log      []Op
	KeepData bool // keep a copy of written bytes in the log
	seq      int
	OpenErr  func(name string) error
	// MaxFileSize, if > 0, makes Open fail for larger files (the harness's stand-in for a full disk; nothing is allocated).
	MaxFileSize int64
	// WriteHook, if set, is called (without the lock) before each WriteAt takes effect; it may block.
	WriteHook func(name string, off int64, p []byte)
	// AfterWrite, if set, is called after the bytes are in place, under the storage lock (must not call back into Mem).
	AfterWrite func(name string, off int64, p []byte)
	// ReadHook, if set, is called before each ReadAt (may sleep).
	ReadHook func()
	// FailWrite, if set, is consulted before each write: a non-nil error is returned to the caller and nothing is written.
	FailWrite func(name string, off int64, p []byte) error
}

func NewMem() *Mem { return &Mem{Files: map[string]*MemFile{}} }

func (m *Mem) RootDir() string { return "/mem" }

func (m *Mem) record(kind, name string, off int64, p []byte) {
	m.seq++
	op := Op{Seq: m.seq, Kind: kind, Name: name, Off: off, Len: len(p)}
	if m.KeepData && kind == "write" {
		op.Data = append([]byte(nil), p...)
	}
	m.Log = append(m.Log, op)
}

func (m *Mem) Open(name string, size int64) (storage.File, bool, error) {
	if m.OpenErr != nil {
		if err := m.OpenErr(name); err != nil {
			return nil, false, err
		}
	}
	if m.MaxFileSize > 0 && size > m.MaxFileSize {
		return nil, false, fmt.Errorf("memfile %q: no space for %d bytes", name, size)
	}
	m.mu.Lock()
	defer m.mu.Unlock()
	m.record("open", name, size, nil)
	f, ok := m.Files[name]
	if !ok {
		f = &MemFile{m: m, Name: name, Data: make([]byte, size)}
		m.Files[name] = f
	} else if int64(len(f.Data)) != size {
		nd := make([]byte, size)
		copy(nd, f.Data)
		f.Data = nd
	}
	f.OpenHandles++
	return f, ok, nil
}

// OpenHandles returns the number of handles opened and not closed.
func (m *Mem) OpenHandles() int {
	m.mu.Lock()
	defer m.mu.Unlock()
	n := 0
	for _, f := range m.Files {
		n += f.OpenHandles
	}
	return n
}

// Snapshot returns a copy of every file's bytes.
func (m *Mem) Snapshot() map[string][]byte {
	m.mu.Lock()
	defer m.mu.Unlock()
	out := map[string][]byte{}
	for k, f := range m.Files {
		out[k] = append([]byte(nil), f.Data...)
	}
	return out
}

// Writes returns a copy of the write log.
func (m *Mem) Writes() []Op {
	m.mu.Lock()
	defer m.mu.Unlock()
	var out []Op
	for _, o := range m.Log {
		if o.Kind == "write" {
			out = append(out, o)
		}
	}
	return out
}

// NewMemFile creates a file that already exists on the storage (Open reports exists=true).
func NewMemFile(m *Mem, name string, data []byte) *MemFile {
	return &MemFile{m: m, Name: name, Data: data}
}

type MemFile struct {
	m           *Mem
	Name        string
	Data        []byte
	OpenHandles int
}

func (f *MemFile) ReadAt(p []byte, off int64) (int, error) {
	if h := f.m.ReadHook; h != nil {
		h()
	}
	f.m.mu.Lock()
	defer f.m.mu.Unlock()
	if off < 0 || off > int64(len(f.Data)) {
		return 0, fmt.Errorf("memfile %q: read at %d outside [0,%d]", f.Name, off, len(f.Data))
	}
	n := copy(p, f.Data[off:])
	if n < len(p) {
		return n, io.EOF
	}
	return n, nil
}

func (f *MemFile) WriteAt(p []byte, off int64) (int, error) {
	if h := f.m.WriteHook; h != nil {
		h(f.Name, off, p)
	}
	if h := f.m.FailWrite; h != nil {
		if err := h(f.Name, off, p); err != nil {
			return 0, err
		}
	}
	f.m.mu.Lock()
	f.m.record("write", f.Name, off, p)
	if off < 0 || off+int64(len(p)) > int64(len(f.Data)) {
		f.m.mu.Unlock()
		return 0, fmt.Errorf("memfile %q: write [%d,%d) outside file of %d bytes", f.Name, off, off+int64(len(p)), len(f.Data))
	}
	copy(f.Data[off:], p)
	// AfterWrite runs inside the critical section: a reader that can see these bytes must come after the
	// observer's record of them (otherwise "the client announced a piece before it was on storage" could be
	// reported for a piece that a concurrent verification pass read between the copy and the record).
	if h := f.m.AfterWrite; h != nil {
		h(f.Name, off, p)
	}
	f.m.mu.Unlock()
	return len(p), nil
}

func (f *MemFile) Close() error {
	f.m.mu.Lock()
	defer f.m.mu.Unlock()
	f.m.record("close", f.Name, 0, nil)
	f.OpenHandles--
	return nil
}

// Provider hands the same Mem to every torrent id (one torrent per session in the harness) or one per id.
type Provider struct {
	mu    sync.Mutex
	ByID  map[string]*Mem
	Setup func(id string, m *Mem)
}

func NewProvider() *Provider { return &Provider{ByID: map[string]*Mem{}} }

func (p *Provider) GetStorage(id string) (storage.Storage, error) {
	p.mu.Lock()
	defer p.mu.Unlock()
	m, ok := p.ByID[id]
	if !ok {
		m = NewMem()
		if p.Setup != nil {
			p.Setup(id, m)
		}
		p.ByID[id] = m
	}
	return m, nil
}

// Forget drops the storage of id (the torrent was removed; a later torrent with the same id starts from nothing).
func (p *Provider) Forget(id string) {
	p.mu.Lock()
	defer p.mu.Unlock()
	delete(p.ByID, id)
}

// Mutate gives f exclusive access to the file map (external changes to the files while the torrent is stopped).
func (m *Mem) Mutate(f func(files map[string]*MemFile)) {
	m.mu.Lock()
	defer m.mu.Unlock()
	f(m.Files)
}
