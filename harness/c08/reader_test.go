package c08

import (
	"bytes"
	"encoding/binary"
	"fmt"
	"os"
	"runtime"
	"testing"
	"time"

	"github.com/cenkalti/rain/v2/internal/logger"
	"github.com/cenkalti/rain/v2/internal/peerconn/peerreader"
	"github.com/cenkalti/rain/v2/internal/peerprotocol"
	"github.com/cenkalti/rain/v2/verifharness/chunkconn"
	"github.com/cenkalti/rain/v2/verifharness/core"
	"github.com/cenkalti/rain/v2/verifharness/model"
	"github.com/cenkalti/rain/v2/verifharness/refwire"
	"pgregory.net/rapid"
)

func TestMain(m *testing.M) {
	switch os.Getenv("VERIF_DEBUG") {
	case "":
		logger.Disable()
	case "2":
		logger.SetDebug()
	}
	os.Exit(m.Run())
}

// Elem is one element of the attacker's byte stream: a well-formed message or a hostile frame.
type Elem struct {
	Msg     *refwire.Msg `json:"msg,omitempty"`
	Declare uint32       `json:"declare,omitempty"` // hostile frame: declared length
	ID      byte         `json:"id,omitempty"`
	Body    []byte       `json:"body,omitempty"` // bytes that actually follow the id (may be shorter or longer than declared)
	Hostile bool         `json:"hostile,omitempty"`
}

type StreamCase struct {
	MaxMsg int    `json:"max_msg_size"`
	Elems  []Elem `json:"elems"`
	Reads  []int  `json:"reads"`
}

var hostileExt = []string{
	"d1:v2147483647:abce", "d1:md11:ut_metadatai1ee1:v99999999999:", "d8:msg_typei1e5:piecei0e10:total_size2147483647:e",
	"d5:added4294967295:", "le", "i1e", "d1:mi1ee", "d1:md1:xi256eee", "d1:md1:xi-1eee", "d13:metadata_sizei-5e4:reqqi-9ee", "d", "", "\xff\xff",
	"d8:msg_typei99e5:piecei4294967296ee", "d8:msg_typei1e5:piecei-1ee", "d5:added3:abc7:dropped5:12345e", "d1:v" + "100000:" + "x",
}

func genStream(t *rapid.T) StreamCase {
	c := StreamCase{MaxMsg: rapid.SampledFrom([]int{1 << 10, 4 << 10, 16<<10 + 13, 32 << 10, 64 << 10}).Draw(t, "maxmsg")}
	n := rapid.IntRange(1, 10).Draw(t, "n")
	for i := 0; i < n; i++ {
		switch rapid.IntRange(0, 9).Draw(t, "elemClass") {
		case 0, 1, 2, 3, 4:
			m := refwire.GenMsg(t, refwire.GenOpts{FixedExtIDs: true, MaxPayload: min(c.MaxMsg, 8192)})
			c.Elems = append(c.Elems, Elem{Msg: &m})
		case 5: // hostile length prefix
			e := Elem{Hostile: true, ID: byte(rapid.SampledFrom([]int{0, 4, 5, 6, 7, 8, 9, 13, 14, 16, 17, 20, 21, 255}).Draw(t, "id"))}
			e.Declare = rapid.SampledFrom([]uint32{1, 2, 3, 5, 8, 9, 10, 13, 14, uint32(c.MaxMsg), uint32(c.MaxMsg) + 1, uint32(c.MaxMsg) + 2, 1 << 20, 1 << 24, 1<<31 - 1, 1 << 31, 1<<32 - 1}).Draw(t, "declare")
			e.Body = rapid.SliceOfN(rapid.Byte(), 0, 40).Draw(t, "body")
			c.Elems = append(c.Elems, e)
		case 6: // hostile extension payload
			e := Elem{Hostile: true, ID: 20}
			ext := byte(rapid.SampledFrom([]int{0, 1, 2, 3, 255}).Draw(t, "extid"))
			pl := rapid.SampledFrom(hostileExt).Draw(t, "extpayload")
			e.Body = append([]byte{ext}, pl...)
			e.Declare = uint32(1 + len(e.Body))
			c.Elems = append(c.Elems, e)
		case 7: // fixed-size message with the wrong body size
			e := Elem{Hostile: true, ID: byte(rapid.SampledFrom([]int{0, 1, 2, 3, 4, 6, 7, 8, 9, 14, 15, 16, 17}).Draw(t, "id"))}
			e.Body = rapid.SliceOfN(rapid.Byte(), 0, 20).Draw(t, "body")
			e.Declare = uint32(1 + len(e.Body))
			c.Elems = append(c.Elems, e)
		case 8: // unknown id with a consistent body: must be skipped, not fatal
			e := Elem{ID: byte(rapid.SampledFrom([]int{10, 11, 12, 13, 18, 19, 21, 100, 255}).Draw(t, "id"))}
			e.Body = rapid.SliceOfN(rapid.Byte(), 0, 30).Draw(t, "body")
			e.Declare = uint32(1 + len(e.Body))
			c.Elems = append(c.Elems, e)
		default: // random bytes
			e := Elem{Hostile: true, Declare: rapid.Uint32().Draw(t, "declare"), ID: rapid.Byte().Draw(t, "id")}
			e.Body = rapid.SliceOfN(rapid.Byte(), 0, 30).Draw(t, "body")
			c.Elems = append(c.Elems, e)
		}
	}
	c.Reads = refwire.GenSchedule(t, "reads")
	return c
}

func (e *Elem) bytes() []byte {
	if e.Msg != nil {
		return refwire.Encode(*e.Msg)
	}
	out := binary.BigEndian.AppendUint32(nil, e.Declare)
	out = append(out, e.ID)
	return append(out, e.Body...)
}

// deliverable reports whether a well-formed message must be delivered by a conforming reader with the given
// limits (keep-alives and unknown ids are consumed silently).
func deliverable(m *refwire.Msg, maxMsg int) (deliver bool, wellFormed bool) {
	n := len(refwire.Encode(*m)) - 5
	if m.Kind == "keepalive" {
		return false, true
	}
	if n > maxMsg {
		return false, false
	}
	switch m.Kind {
	case "request":
		if m.Length > 16384 {
			return false, false
		}
	case "piece":
		if len(m.Data) > 16384 {
			return false, false
		}
	case "suggest":
		return false, true // unknown to rain: skipped
	}
	return true, true
}

func runStream(c StreamCase) core.Result {
	var stream []byte
	var expect []refwire.Msg
	prefixOK := true
	hostile := 0
	for i := range c.Elems {
		e := &c.Elems[i]
		stream = append(stream, e.bytes()...)
		if e.Msg != nil {
			d, wf := deliverable(e.Msg, c.MaxMsg)
			if !wf {
				prefixOK = false
				hostile++
			}
			if prefixOK && d {
				expect = append(expect, *e.Msg)
			}
			continue
		}
		if e.Hostile {
			prefixOK = false
			hostile++
		} else if int(e.Declare)-1 > c.MaxMsg {
			prefixOK = false
		}
	}
	a, b := chunkconn.Pair(nil, c.Reads)
	r := peerreader.New(b, logger.New("r"), 200*time.Millisecond, c.MaxMsg, nil)
	var ms0, ms1 runtime.MemStats
	runtime.GC()
	runtime.ReadMemStats(&ms0)
	done := make(chan struct{})
	var panicked any
	go func() {
		defer close(done)
		defer func() { panicked = recover() }()
		r.Run()
	}()
	go func() {
		a.Write(stream)
		a.Close()
	}()
	var got []any
	timeout := time.After(15 * time.Second)
loop:
	for {
		select {
		case m := <-r.Messages():
			if p, ok := m.(peerreader.Piece); ok {
				got = append(got, refwire.Msg{Kind: "piece", Index: p.Index, Begin: p.Begin, Data: append([]byte(nil), p.Buffer.Data...)})
				p.Buffer.Release()
			} else {
				got = append(got, m)
			}
		case <-done:
			break loop
		case <-timeout:
			return core.Failf("reader neither finished nor delivered for 15 s after the stream ended (%d bytes fed)", len(stream))
		}
	}
	runtime.ReadMemStats(&ms1)
	if panicked != nil {
		return core.Failf("reader panicked: %v", panicked)
	}
	alloc := ms1.TotalAlloc - ms0.TotalAlloc
	bound := uint64(8*len(stream) + 4*c.MaxMsg + 1<<20)
	if alloc > bound {
		return core.Failf("reader allocated %d bytes for a stream of %d bytes with max message size %d (bound %d)", alloc, len(stream), c.MaxMsg, bound)
	}
	if len(got) < len(expect) {
		return core.Failf("reader delivered %d messages, the well-formed prefix of the stream has %d", len(got), len(expect))
	}
	for i, m := range expect {
		if s := same(got[i], m); s != "" {
			return core.Failf("delivered message %d (%s): %s", i, m.Kind, s)
		}
	}
	res := core.Result{Nontrivial: hostile > 0}
	if hostile > 0 {
		res.Labels = append(res.Labels, "hostile")
	}
	if len(expect) > 0 {
		res.Labels = append(res.Labels, "wellformed-prefix")
	}
	if len(stream) > 3000 {
		res.Sample = map[string]any{"max_msg_size": c.MaxMsg, "elements": len(c.Elems), "stream_len": len(stream), "reads": c.Reads}
	}
	return res
}

func same(got any, m refwire.Msg) string {
	// re-encode what rain delivered with the reference codec and compare with the frame that was fed
	var back refwire.Msg
	switch g := got.(type) {
	case peerprotocol.ChokeMessage:
		back = refwire.Msg{Kind: "choke"}
	case peerprotocol.UnchokeMessage:
		back = refwire.Msg{Kind: "unchoke"}
	case peerprotocol.InterestedMessage:
		back = refwire.Msg{Kind: "interested"}
	case peerprotocol.NotInterestedMessage:
		back = refwire.Msg{Kind: "notinterested"}
	case peerprotocol.HaveAllMessage:
		back = refwire.Msg{Kind: "haveall"}
	case peerprotocol.HaveNoneMessage:
		back = refwire.Msg{Kind: "havenone"}
	case peerprotocol.HaveMessage:
		back = refwire.Msg{Kind: "have", Index: g.Index}
	case peerprotocol.AllowedFastMessage:
		back = refwire.Msg{Kind: "allowedfast", Index: g.Index}
	case peerprotocol.BitfieldMessage:
		back = refwire.Msg{Kind: "bitfield", Data: g.Data}
	case peerprotocol.RequestMessage:
		back = refwire.Msg{Kind: "request", Index: g.Index, Begin: g.Begin, Length: g.Length}
	case peerprotocol.CancelMessage:
		back = refwire.Msg{Kind: "cancel", Index: g.Index, Begin: g.Begin, Length: g.Length}
	case peerprotocol.RejectMessage:
		back = refwire.Msg{Kind: "reject", Index: g.Index, Begin: g.Begin, Length: g.Length}
	case peerprotocol.PortMessage:
		back = refwire.Msg{Kind: "port", Port: g.Port}
	case refwire.Msg:
		back = g
	case peerprotocol.ExtensionHandshakeMessage:
		if m.Kind != "ext-handshake" {
			return fmt.Sprintf("got %T", got)
		}
		if g.V != m.V || g.YourIP != string(m.YourIP) || int64(g.MetadataSize) != m.MetadataSize || int64(g.RequestQueue) != m.Reqq || len(g.M) != len(m.M) {
			return fmt.Sprintf("got %+v", g)
		}
		for k, v := range m.M {
			if int(g.M[k]) != v {
				return fmt.Sprintf("m[%q]=%d want %d", k, g.M[k], v)
			}
		}
		return ""
	case peerprotocol.ExtensionMetadataMessage:
		if m.Kind != "ext-metadata" || int64(g.Type) != m.MsgType || g.Piece != m.Index || int64(g.TotalSize) != m.TotalSize || !bytes.Equal(g.Data, m.Data) {
			return fmt.Sprintf("got %T type %d piece %d total %d data %d bytes", got, g.Type, g.Piece, g.TotalSize, len(g.Data))
		}
		return ""
	case peerprotocol.ExtensionPEXMessage:
		if m.Kind != "ext-pex" || g.Added != string(m.Added) || g.Dropped != string(m.Dropped) {
			return fmt.Sprintf("got %T", got)
		}
		return ""
	default:
		return fmt.Sprintf("unexpected delivery %T", got)
	}
	if !bytes.Equal(refwire.Encode(back), refwire.Encode(m)) {
		return fmt.Sprintf("delivered %+v re-encodes to % x, fed % x", clipMsg(back), clip(refwire.Encode(back)), clip(refwire.Encode(m)))
	}
	return ""
}

func clip(b []byte) []byte {
	if len(b) > 24 {
		return b[:24]
	}
	return b
}

func clipMsg(m refwire.Msg) refwire.Msg { m.Data = clip(m.Data); return m }

func TestReaderStream(t *testing.T) { core.Run(t, "c08.reader", genStream, runStream) }

// ---- extension payloads and compact peer lists ----

type ExtCase struct {
	ExtID   byte   `json:"ext_id"`
	Payload []byte `json:"payload"`
}

func genExt(t *rapid.T) ExtCase {
	c := ExtCase{ExtID: byte(rapid.SampledFrom([]int{0, 1, 2, 3}).Draw(t, "extid"))}
	switch rapid.IntRange(0, 3).Draw(t, "class") {
	case 0:
		c.Payload = []byte(rapid.SampledFrom(hostileExt).Draw(t, "payload"))
	case 1:
		c.Payload = rapid.SliceOfN(rapid.Byte(), 0, 64).Draw(t, "payload")
	default:
		// structured dictionary with hostile values
		d := model.OrderedDict{}
		keys := []string{"m", "v", "yourip", "metadata_size", "reqq", "msg_type", "piece", "total_size", "added", "dropped", "added.f", "p", "x"}
		n := rapid.IntRange(0, 6).Draw(t, "nkeys")
		for i := 0; i < n; i++ {
			k := rapid.SampledFrom(keys).Draw(t, "key")
			var v any
			switch rapid.IntRange(0, 5).Draw(t, "valClass") {
			case 0:
				v = rapid.SampledFrom([]int64{0, 1, -1, 255, 256, 1 << 31, 1<<63 - 1, -1 << 63}).Draw(t, "int")
			case 1:
				v = string(rapid.SliceOfN(rapid.Byte(), 0, 20).Draw(t, "str"))
			case 2:
				v = []any{int64(1), "a"}
			case 3:
				v = map[string]any{"ut_metadata": rapid.SampledFrom([]int64{0, 1, 255, 256, -1}).Draw(t, "mid"), "ut_pex": int64(2)}
			case 4:
				v = model.Raw(fmt.Sprintf("%d:x", rapid.SampledFrom([]int64{1 << 20, 1<<31 - 1, 1 << 31, 1 << 40}).Draw(t, "hugeLen")))
			default:
				v = model.Raw(rapid.SampledFrom([]string{"i-0e", "i01e", "ie", "i9999999999999999999999e", "0:", "-1:", "lllllleeeeee"}).Draw(t, "odd"))
			}
			d = append(d, model.KV{K: k, V: v})
		}
		c.Payload = model.Benc(d)
		if rapid.Bool().Draw(t, "trailing") {
			c.Payload = append(c.Payload, rapid.SliceOfN(rapid.Byte(), 0, 40).Draw(t, "trail")...)
		}
	}
	return c
}

func runExt(c ExtCase) core.Result {
	data := append([]byte{c.ExtID}, c.Payload...)
	var ms0, ms1 runtime.MemStats
	runtime.ReadMemStats(&ms0)
	var em peerprotocol.ExtensionMessage
	ok, p := core.Watchdog(20*time.Second, func() { _ = em.UnmarshalBinary(data) })
	if !ok {
		core.Die("c08.ext", c, "ExtensionMessage.UnmarshalBinary did not return within 20 s")
	}
	if p != nil {
		return core.Failf("UnmarshalBinary panicked: %v", p)
	}
	runtime.ReadMemStats(&ms1)
	if alloc := ms1.TotalAlloc - ms0.TotalAlloc; alloc > uint64(64*len(data)+(1<<20)) {
		return core.Failf("UnmarshalBinary allocated %d bytes for a %d-byte extension message", alloc, len(data))
	}
	return core.Result{Nontrivial: true}
}

func TestExtPayload(t *testing.T) { core.Run(t, "c08.ext", genExt, runExt) }
