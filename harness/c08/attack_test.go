package c08

import (
	"bytes"
	"encoding/hex"
	"fmt"
	"net"
	"strings"
	"sync"
	"testing"
	"time"

	"github.com/cenkalti/rain/v2/torrent"
	"github.com/cenkalti/rain/v2/verifharness/core"
	"github.com/cenkalti/rain/v2/verifharness/model"
	"github.com/cenkalti/rain/v2/verifharness/refwire"
	"github.com/cenkalti/rain/v2/verifharness/sess"
	"github.com/cenkalti/rain/v2/verifharness/speer"
	"github.com/cenkalti/rain/v2/verifharness/sstore"
	"pgregory.net/rapid"
)

// AMsg is one attacker action.
type AMsg struct {
	Msg   *refwire.Msg `json:"msg,omitempty"`
	Raw   []byte       `json:"raw,omitempty"` // raw bytes written to the stream
	Sleep int          `json:"sleep_ms,omitempty"`
}

type Attacker struct {
	Fast    bool   `json:"fast"`
	Ext     bool   `json:"ext"`
	NoExtHS bool   `json:"no_ext_hs"`
	Script  []AMsg `json:"script"`
	AtMs    int    `json:"at_ms"` // when it connects
}

type AttackCase struct {
	L             model.Layout `json:"layout"`
	State         string       `json:"state"` // downloading | magnet | seeding | verifying | stopping
	Attackers     []Attacker   `json:"attackers"`
	HonestDelayMs int          `json:"honest_delay_ms"` // the honest seeder becomes known this much later (attackers get there first)
}

func genAttacker(t *rapid.T, np int) Attacker {
	a := Attacker{Fast: rapid.Bool().Draw(t, "fast"), Ext: rapid.IntRange(0, 3).Draw(t, "ext") != 0, NoExtHS: rapid.IntRange(0, 3).Draw(t, "noexths") == 0,
		AtMs: rapid.SampledFrom([]int{0, 0, 10, 50, 150}).Draw(t, "at")}
	n := rapid.IntRange(1, 14).Draw(t, "nmsg")
	for i := 0; i < n; i++ {
		switch rapid.IntRange(0, 9).Draw(t, "class") {
		case 0:
			a.Script = append(a.Script, AMsg{Sleep: rapid.SampledFrom([]int{1, 10, 60}).Draw(t, "sleep")})
		case 1: // hostile raw frame
			e := genStream(t).Elems[0]
			a.Script = append(a.Script, AMsg{Raw: e.bytes()})
		case 2, 3: // message with indexes near the torrent's real geometry
			m := refwire.GenMsg(t, refwire.GenOpts{FixedExtIDs: true, MaxPayload: 2048})
			m.Index = uint32(rapid.IntRange(0, np+1).Draw(t, "nearIndex"))
			if m.Kind == "bitfield" {
				m.Data = make([]byte, (np+7)/8+rapid.IntRange(-1, 1).Draw(t, "bfDelta"))
				for k := range m.Data {
					m.Data[k] = 0xff
				}
			}
			a.Script = append(a.Script, AMsg{Msg: &m})
		default:
			m := refwire.GenMsg(t, refwire.GenOpts{FixedExtIDs: true, MaxPayload: 2048})
			a.Script = append(a.Script, AMsg{Msg: &m})
		}
	}
	return a
}

func genAttack(t *rapid.T) AttackCase {
	c := AttackCase{L: model.GenLayout(t, model.LayoutOpts{MaxTotal: 200 << 10, MaxPieces: 40, MaxFiles: 4})}
	c.State = rapid.SampledFrom([]string{"downloading", "downloading", "magnet", "seeding", "verifying", "stopping"}).Draw(t, "state")
	n := rapid.IntRange(1, 3).Draw(t, "natk")
	for i := 0; i < n; i++ {
		c.Attackers = append(c.Attackers, genAttacker(t, c.L.NumPieces()))
	}
	c.HonestDelayMs = rapid.SampledFrom([]int{0, 0, 0, 40, 120}).Draw(t, "honestDelay")
	return c
}

func runAttack(c AttackCase) core.Result {
	l := &c.L
	F := l.Flat()
	ih := l.InfoHash(F)
	infoBytes := l.InfoBytes(F)
	pl := int(l.PieceLength)
	mask := l.PadMask()
	offs := l.FileOffsets()
	dir, cleanup := sess.Scratch("c08")
	defer cleanup()
	cfg := sess.Config(dir)
	prov := sstore.NewProvider()
	seeding := c.State == "seeding"
	prov.Setup = func(id string, m *sstore.Mem) {
		if seeding || c.State == "verifying" {
			for i, f := range l.Files {
				if f.Pad != 0 {
					continue
				}
				data := append([]byte(nil), F[offs[i]:offs[i]+f.Length]...)
				if c.State == "verifying" { // half of the content is there: verification has work to do, download continues afterwards
					for k := len(data) / 2; k < len(data); k++ {
						data[k] = 0
					}
				}
				m.Files[l.ExpectedPath(i)] = sstore.NewMemFile(m, l.ExpectedPath(i), data)
			}
		}
		if c.State == "verifying" {
			m.ReadHook = func() { time.Sleep(3 * time.Millisecond) } // stretch verification so that attackers act during it
		}
	}
	cfg.CustomStorage = prov
	ses, err := torrent.NewSession(cfg)
	if err != nil {
		return core.Result{Inconcl: "session: " + err.Error()}
	}
	defer ses.Close()
	var tor *torrent.Torrent
	if c.State == "magnet" {
		tor, err = ses.AddURI("magnet:?xt=urn:btih:"+hex.EncodeToString(ih[:]), &torrent.AddTorrentOptions{Stopped: true})
	} else {
		tor, err = ses.AddTorrent(bytes.NewReader(l.Metainfo(F, nil, nil)), &torrent.AddTorrentOptions{Stopped: true})
	}
	if err != nil {
		return core.Failf("adding a valid torrent failed: %v", err)
	}
	mkOpts := func(k int, fast, ext, noExtHS bool) speer.Opts {
		var id [20]byte
		copy(id[:], fmt.Sprintf("-SP0001-%012d", k))
		return speer.Opts{InfoHash: ih, PeerID: id, Fast: fast, Ext: ext, NoExtHS: noExtHS, MetadataSize: int64(len(infoBytes)), Reqq: 250}
	}
	// honest seeder (listening; slow enough that attackers overlap with the transfer)
	ln, err := net.Listen("tcp4", sess.IP(1)+":0")
	if err != nil {
		panic(err)
	}
	defer ln.Close()
	var honestMu sync.Mutex
	var honestPeers []*speer.Peer
	go func() {
		for {
			conn, err := ln.Accept()
			if err != nil {
				return
			}
			go func() {
				p, err := speer.Accept(conn, mkOpts(1, true, true, false), 3*time.Second)
				if err != nil {
					return
				}
				honestMu.Lock()
				honestPeers = append(honestPeers, p)
				honestMu.Unlock()
				speer.Serve(p, speer.Behaviour{DelayPerBlockMs: 8}, F, pl, infoBytes)
			}()
		}
	}()
	if err := tor.Start(); err != nil {
		return core.Failf("start: %v", err)
	}
	if !seeding {
		if c.HonestDelayMs > 0 {
			go func() {
				time.Sleep(time.Duration(c.HonestDelayMs) * time.Millisecond)
				_ = tor.AddPeer(ln.Addr().String())
			}()
		} else {
			_ = tor.AddPeer(ln.Addr().String())
		}
	}
	clientAddr := fmt.Sprintf("%s:%d", sess.IP(0), tor.Port())
	t0 := time.Now()
	var wg sync.WaitGroup
	processed := make([]int, len(c.Attackers))
	dropped := make([]bool, len(c.Attackers))
	for ai := range c.Attackers {
		wg.Add(1)
		go func(ai int) {
			defer wg.Done()
			a := &c.Attackers[ai]
			time.Sleep(time.Until(t0.Add(time.Duration(a.AtMs) * time.Millisecond)))
			var p *speer.Peer
			var err error
			for try := 0; try < 40; try++ {
				p, err = speer.Dial(sess.IP(20+ai), clientAddr, mkOpts(20+ai, a.Fast, a.Ext, a.NoExtHS), 2*time.Second)
				if err == nil || !strings.Contains(err.Error(), "refused") {
					break
				}
				time.Sleep(25 * time.Millisecond)
			}
			if err != nil {
				return
			}
			defer p.Close()
			for _, m := range a.Script {
				if p.Closed() {
					dropped[ai] = true
					break
				}
				switch {
				case m.Sleep > 0:
					time.Sleep(time.Duration(m.Sleep) * time.Millisecond)
				case m.Raw != nil:
					p.SendRaw(m.Raw, nil)
					processed[ai]++
				case m.Msg != nil:
					p.Send(*m.Msg)
					processed[ai]++
				}
			}
			// confirm processing where possible, then stay connected for a while
			if !p.Closed() && a.Ext && !a.NoExtHS {
				p.Barrier(2 * time.Second)
			}
			time.Sleep(150 * time.Millisecond)
			dropped[ai] = dropped[ai] || p.Closed()
		}(ai)
	}
	res := core.Result{Labels: []string{"state-" + c.State}}
	stuck := func(what string) core.Result {
		st := tor.Stats()
		return core.Failf("%s: state %q, status %v, %d/%d pieces, peers %d, error %v; attackers sent %v messages (dropped: %v)", what, c.State, st.Status, st.Pieces.Have, st.Pieces.Total, st.Peers.Total, st.Error, processed, dropped)
	}
	if c.State == "stopping" {
		time.Sleep(60 * time.Millisecond)
		if err := tor.Stop(); err != nil {
			return core.Failf("stop: %v", err)
		}
		time.Sleep(100 * time.Millisecond)
		if err := tor.Start(); err != nil {
			return core.Failf("start after stop: %v", err)
		}
		_ = tor.AddPeer(ln.Addr().String())
	}
	if seeding {
		// wait until seeding, then an honest leecher takes everything
		ok := false
		for i := 0; i < 1500 && !ok; i++ {
			ok = tor.Stats().Status == torrent.Seeding
			time.Sleep(10 * time.Millisecond)
		}
		if !ok {
			return stuck("the torrent did not reach Seeding within 15 s on complete, correct files")
		}
		var p *speer.Peer
		p, err = speer.DialPatient(sess.IP(2), clientAddr, mkOpts(2, true, true, false))
		if err != nil {
			return stuck("the honest leecher cannot connect: " + err.Error())
		}
		defer p.Close()
		if s := speer.LeechAll(p, F, pl, mask, 15*time.Second); s != "" {
			return stuck(s)
		}
	} else {
		select {
		case <-tor.NotifyComplete():
		case err := <-tor.NotifyStop():
			return stuck(fmt.Sprintf("the torrent stopped by itself while under attack (%v)", err))
		case <-time.After(20 * time.Second):
			// stuck-state predicate: the honest seeder is connected right now (its one connection may have been lost to
			// a handshake timeout on a loaded machine, and the client is not given its address twice)
			connected := false
			honestMu.Lock()
			for _, p := range honestPeers {
				if !p.Closed() {
					connected = true
				}
			}
			honestMu.Unlock()
			if !connected {
				return core.Result{Inconcl: "the honest seeder is not connected at the deadline"}
			}
			return stuck("the download from the connected honest seeder did not complete within 20 s while other peers misbehaved")
		}
	}
	wg.Wait()
	// the loop still answers
	done := make(chan torrent.Stats, 1)
	go func() { done <- tor.Stats() }()
	select {
	case <-done:
	case <-time.After(5 * time.Second):
		return core.Failf("Stats() does not return within 5 s after the attack (event loop stuck)")
	}
	// content intact
	for _, m := range prov.ByID {
		snap := m.Snapshot()
		for i, f := range l.Files {
			if f.Pad != 0 {
				continue
			}
			if !bytes.Equal(snap[l.ExpectedPath(i)], F[offs[i]:offs[i]+f.Length]) {
				return core.Failf("file %q differs from the torrent content after the attack (state %s)", l.ExpectedPath(i), c.State)
			}
		}
		if seeding {
			for _, w := range m.Writes() {
				return core.Failf("a seeding client wrote to storage under attack: %+v", w)
			}
		}
	}
	total := 0
	for _, n := range processed {
		total += n
	}
	res.Nontrivial = total > 0
	for _, d := range dropped {
		if d {
			res.Labels = append(res.Labels, "attacker-dropped")
		}
	}
	return res
}

func TestAttack(t *testing.T) { core.RunChild(t, "c08.attack", genAttack, runAttack, 70*time.Second) }
