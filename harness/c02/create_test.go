package c02

import (
	"bytes"
	"crypto/sha1"
	"fmt"
	"os"
	"path/filepath"
	"sort"
	"strings"
	"testing"

	"github.com/cenkalti/rain/v2/internal/allocator"
	"github.com/cenkalti/rain/v2/internal/logger"
	"github.com/cenkalti/rain/v2/internal/metainfo"
	"github.com/cenkalti/rain/v2/internal/piece"
	"github.com/cenkalti/rain/v2/internal/storage/filestorage"
	"github.com/cenkalti/rain/v2/internal/verifier"
	"github.com/cenkalti/rain/v2/verifharness/core"
	"github.com/cenkalti/rain/v2/verifharness/sess"
	"pgregory.net/rapid"
)

// c02.create: "a torrent the client creates from a directory verifies completely against that same directory",
// for generated directory trees. Names are drawn from an alphabet in which directory names are prefixes of sibling
// names ("cd1", "cd1.nfo", "cd1 extras", "cd1-b"), so that byte order, path-component order and walk order differ.
type CFile struct {
	Path []string `json:"path"` // components below the torrent's top directory
	Len  int      `json:"len"`
}
type CreateCase struct {
	Files       []CFile `json:"files"`
	PieceLength int     `json:"piece_length"` // 0 = let the client choose
	Single      bool    `json:"single_file"`  // create from one plain file instead of a directory
	Private     bool    `json:"private"`
	Name        string  `json:"name"` // explicit torrent name ("" = base name of the path)
}

var nameAlphabet = []string{"cd1", "cd1.nfo", "cd1 extras", "cd1-b", "cd1_", "cd10", "a", "a.b", "a b", "A", "b", "z", "é", "0", "track", "Track", "tra", "x.y.z", ".hidden", "~tmp"}

func genCreate(t *rapid.T) CreateCase {
	c := CreateCase{PieceLength: rapid.SampledFrom([]int{0, 16384, 16384, 32768, 49152, 65536, 1 << 18}).Draw(t, "pl"), Private: rapid.Bool().Draw(t, "private")}
	if rapid.IntRange(0, 7).Draw(t, "single") == 0 {
		c.Single = true
		c.Files = []CFile{{Path: []string{rapid.SampledFrom(nameAlphabet).Draw(t, "fname")}, Len: rapid.IntRange(1, 70000).Draw(t, "len")}}
		return c
	}
	n := rapid.IntRange(1, 9).Draw(t, "nfiles")
	seen := map[string]bool{}
	isDir := map[string]bool{}
	for i := 0; i < n; i++ {
		depth := rapid.IntRange(1, 3).Draw(t, "depth")
		var p []string
		ok := true
		for d := 0; d < depth; d++ {
			p = append(p, rapid.SampledFrom(nameAlphabet).Draw(t, "comp"))
			key := strings.Join(p, "/")
			if d < depth-1 {
				if seen[key] { // a file already has this name
					ok = false
					break
				}
				isDir[key] = true
			} else if seen[key] || isDir[key] {
				ok = false
			}
		}
		if !ok {
			continue
		}
		seen[strings.Join(p, "/")] = true
		c.Files = append(c.Files, CFile{Path: p, Len: rapid.SampledFrom([]int{0, 1, 100, 16383, 16384, 16385, 40000, 70000}).Draw(t, "flen")})
	}
	// a directory name must not also be a file name (decided after all paths are known)
	var files []CFile
	for _, f := range c.Files {
		if !isDir[strings.Join(f.Path, "/")] {
			files = append(files, f)
		}
	}
	c.Files = files
	if rapid.IntRange(0, 3).Draw(t, "named") == 0 {
		c.Name = "explicit name"
	}
	return c
}

func content(i, n int) []byte {
	b := make([]byte, n)
	x := uint32(i*2654435761 + 12345)
	for k := range b {
		x = x*1664525 + 1013904223
		b[k] = byte(x >> 24)
	}
	return b
}

func runCreate(c CreateCase) core.Result {
	total := 0
	for _, f := range c.Files {
		total += f.Len
	}
	if len(c.Files) == 0 || total == 0 {
		return core.Result{Inconcl: "empty tree"}
	}
	dir, cleanup := sess.Scratch("c02c")
	defer cleanup()
	top := "album"
	if c.Single {
		top = c.Files[0].Path[0]
	}
	byPath := map[string][]byte{}
	for i, f := range c.Files {
		rel := filepath.Join(f.Path...)
		p := filepath.Join(dir, "album", rel)
		if c.Single {
			p = filepath.Join(dir, rel)
		}
		if err := os.MkdirAll(filepath.Dir(p), 0o750); err != nil {
			panic(err)
		}
		data := content(i, f.Len)
		if err := os.WriteFile(p, data, 0o600); err != nil {
			panic(err)
		}
		byPath[rel] = data
	}
	logger.Disable()
	b, err := metainfo.NewInfoBytes("", []string{filepath.Join(dir, top)}, c.Private, uint32(c.PieceLength), c.Name, logger.New("c02"))
	if err != nil {
		return core.Failf("creating a torrent from a valid tree failed: %v", err)
	}
	info, err := metainfo.NewInfo(b, true, true)
	if err != nil {
		return core.Failf("the client cannot parse the torrent it created: %v", err)
	}
	res := core.Result{Nontrivial: len(c.Files) >= 2}
	lab := map[string]bool{}
	// (1) independent: every file of the tree listed exactly once with its length; hashing the files in the listed
	// order reproduces the piece hashes
	var concat []byte
	listed := map[string]bool{}
	for _, f := range info.Files {
		rel := f.Path
		if !c.Single {
			// the client's file paths start with the torrent's name (the top directory of the download)
			rel = strings.TrimPrefix(filepath.ToSlash(rel), filepath.ToSlash(info.Name)+"/")
		}
		data, ok := byPath[filepath.FromSlash(rel)]
		if c.Single {
			data, ok = byPath[c.Files[0].Path[0]], true
		}
		if !ok {
			return core.Failf("the created torrent lists %q, which is not a file of the tree (tree: %v)", f.Path, keys(byPath))
		}
		if listed[rel] {
			return core.Failf("the created torrent lists %q twice", f.Path)
		}
		listed[rel] = true
		if int64(len(data)) != f.Length {
			return core.Failf("the created torrent gives %q a length of %d, the file has %d bytes", f.Path, f.Length, len(data))
		}
		concat = append(concat, data...)
	}
	if !c.Single && len(listed) != len(byPath) {
		return core.Failf("the tree has %d files, the created torrent lists %d", len(byPath), len(listed))
	}
	pl := int(info.PieceLength)
	if pl <= 0 {
		return core.Failf("created torrent has piece length %d", pl)
	}
	np := (len(concat) + pl - 1) / pl
	if int(info.NumPieces) != np {
		return core.Failf("created torrent has %d pieces for %d bytes at piece length %d", info.NumPieces, len(concat), pl)
	}
	for i := 0; i < np; i++ {
		h := sha1.Sum(concat[i*pl : min((i+1)*pl, len(concat))])
		if !bytes.Equal(h[:], info.PieceHash(uint32(i))) {
			return core.Failf("piece %d of the created torrent does not hash to the bytes of the files in the order the torrent lists them (files: %v)", i, listedOrder(info))
		}
	}
	// (2) the client's own pipeline: allocate on the same directory, build the pieces, run the verifier
	name := info.Name
	parent := dir
	if !c.Single && name != "album" {
		// an explicit name differs from the directory name: the download location is the directory itself under that name
		if err := os.Rename(filepath.Join(dir, "album"), filepath.Join(dir, name)); err != nil {
			panic(err)
		}
		lab["explicit-name"] = true
	} else if c.Single && name != top {
		if err := os.Rename(filepath.Join(dir, top), filepath.Join(dir, name)); err != nil {
			panic(err)
		}
		lab["explicit-name"] = true
	}
	sto, err := filestorage.New(parent, 0o750)
	if err != nil {
		panic(err)
	}
	a := allocator.New()
	aProgress := make(chan allocator.Progress, len(info.Files)+1)
	aResult := make(chan *allocator.Allocator, 1)
	go a.Run(info, sto, aProgress, aResult)
	ar := <-aResult
	if ar.Error != nil {
		return core.Failf("allocating the created torrent on the directory it was created from failed: %v", ar.Error)
	}
	defer func() {
		for _, f := range ar.Files {
			if f.Storage != nil {
				_ = f.Storage.Close()
			}
		}
	}()
	if ar.HasMissing {
		return core.Failf("the allocator does not find all files of the directory the torrent was created from (files: %v)", listedOrder(info))
	}
	pieces := piece.NewPieces(info, ar.Files)
	v := verifier.New()
	vProgress := make(chan verifier.Progress, len(pieces)+1)
	vResult := make(chan *verifier.Verifier, 1)
	go v.Run(pieces, vProgress, vResult)
	vr := <-vResult
	if vr.Error != nil {
		return core.Failf("verifying the created torrent failed: %v", vr.Error)
	}
	if vr.Bitfield.Count() != vr.Bitfield.Len() {
		return core.Failf("only %d of %d pieces of the created torrent verify against the directory it was created from (files in torrent order: %v)", vr.Bitfield.Count(), vr.Bitfield.Len(), listedOrder(info))
	}
	if info.Private != c.Private {
		return core.Failf("created with private=%v, the torrent says %v", c.Private, info.Private)
	}
	// classes: does byte order of the joined paths differ from component-wise order?
	var joined, comps []string
	for rel := range byPath {
		joined = append(joined, filepath.ToSlash(rel))
	}
	comps = append(comps, joined...)
	sort.Strings(joined)
	sort.Slice(comps, func(i, j int) bool {
		a, b := strings.Split(comps[i], "/"), strings.Split(comps[j], "/")
		for k := 0; k < len(a) && k < len(b); k++ {
			if a[k] != b[k] {
				return a[k] < b[k]
			}
		}
		return len(a) < len(b)
	})
	if fmt.Sprint(joined) != fmt.Sprint(comps) {
		lab["orders-differ"] = true
	}
	if c.Single {
		lab["single-file"] = true
	}
	for k := range lab {
		res.Labels = append(res.Labels, k)
	}
	sort.Strings(res.Labels)
	return res
}

func keys(m map[string][]byte) []string {
	var out []string
	for k := range m {
		out = append(out, k)
	}
	sort.Strings(out)
	return out
}

func listedOrder(info *metainfo.Info) []string {
	var out []string
	for _, f := range info.Files {
		out = append(out, f.Path)
	}
	return out
}

func TestCreate(t *testing.T) { core.Run(t, "c02.create", genCreate, runCreate) }
