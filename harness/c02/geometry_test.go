package c02

import (
	"bytes"
	"fmt"
	"sort"
	"testing"

	"github.com/cenkalti/rain/v2/internal/allocator"
	"github.com/cenkalti/rain/v2/internal/metainfo"
	"github.com/cenkalti/rain/v2/internal/piece"
	"github.com/cenkalti/rain/v2/internal/verifier"
	"github.com/cenkalti/rain/v2/verifharness/core"
	"github.com/cenkalti/rain/v2/verifharness/model"
	"github.com/cenkalti/rain/v2/verifharness/sstore"
	"pgregory.net/rapid"
)

// GeoCase: a layout plus sub-range reads (as fractions resolved against the piece) and one byte to flip.
type GeoCase struct {
	L     model.Layout `json:"layout"`
	Reads [][3]uint32  `json:"reads"` // piece selector, offset selector, length selector
	Flip  uint32       `json:"flip"`
}

func genGeo(t *rapid.T) GeoCase {
	c := GeoCase{L: model.GenLayout(t, model.LayoutOpts{})}
	n := rapid.IntRange(1, 6).Draw(t, "nreads")
	for i := 0; i < n; i++ {
		c.Reads = append(c.Reads, [3]uint32{rapid.Uint32().Draw(t, "rp"), rapid.Uint32().Draw(t, "ro"), rapid.Uint32().Draw(t, "rl")})
	}
	c.Flip = rapid.Uint32().Draw(t, "flip")
	return c
}

// build parses the layout with rain and allocates it on an in-memory storage with rain's allocator.
func build(l *model.Layout, F []byte) (*metainfo.Info, *sstore.Mem, []allocator.File, []piece.Piece, error) {
	info, err := metainfo.NewInfo(l.InfoBytes(F), true, true)
	if err != nil {
		return nil, nil, nil, nil, fmt.Errorf("valid layout rejected: %v", err)
	}
	mem := sstore.NewMem()
	mem.KeepData = true
	a := allocator.New()
	progressC := make(chan allocator.Progress)
	resultC := make(chan *allocator.Allocator, 1)
	go func() {
		for range progressC {
		}
	}()
	a.Run(info, mem, progressC, resultC)
	close(progressC)
	if a.Error != nil {
		return nil, nil, nil, nil, fmt.Errorf("allocator: %v", a.Error)
	}
	pieces := piece.NewPieces(info, a.Files)
	return info, mem, a.Files, pieces, nil
}

func runGeo(c GeoCase) core.Result {
	l := &c.L
	F := l.Flat()
	mask := l.PadMask()
	labels := l.Labels()
	res := core.Result{Labels: labels}
	coincidence := false
	for _, lb := range labels {
		if lb != "multi" {
			coincidence = true
		}
	}
	res.Nontrivial = len(l.Files) >= 2 && coincidence

	info, mem, files, pieces, err := build(l, F)
	if err != nil {
		return core.Failf("%v", err)
	}
	// accepted description is well formed
	if info.Length != l.Total() || int(info.NumPieces) != l.NumPieces() || info.PieceLength != l.PieceLength {
		return core.Failf("info: length %d pieces %d pl %d; model %d %d %d", info.Length, info.NumPieces, info.PieceLength, l.Total(), l.NumPieces(), l.PieceLength)
	}
	if len(files) != len(l.Files) || len(pieces) != l.NumPieces() {
		return core.Failf("files %d pieces %d; model %d %d", len(files), len(pieces), len(l.Files), l.NumPieces())
	}
	offs := l.FileOffsets()
	for i, f := range l.Files {
		if info.Files[i].Length != f.Length || info.Files[i].Padding != (f.Pad != 0) {
			return core.Failf("file %d: rain (len %d pad %v) model (len %d pad %v)", i, info.Files[i].Length, info.Files[i].Padding, f.Length, f.Pad != 0)
		}
	}
	// (a) sections of the pieces in order are exactly the file walk of F.
	var pos int64 // absolute position in F
	fi := 0
	for pi := range pieces {
		p := &pieces[pi]
		if int(p.Length) != l.PieceLen(pi) {
			return core.Failf("piece %d length %d, model %d", pi, p.Length, l.PieceLen(pi))
		}
		if int64(pi)*int64(l.PieceLength) != pos {
			return core.Failf("piece %d starts at %d in the walk, model %d", pi, pos, int64(pi)*int64(l.PieceLength))
		}
		var sum int64
		for si, s := range p.Data {
			if s.Length < 0 {
				return core.Failf("piece %d section %d negative length", pi, si)
			}
			if s.Length == 0 {
				continue
			}
			// advance the model file cursor past files that end here
			for fi < len(l.Files) && offs[fi]+l.Files[fi].Length <= pos {
				fi++
			}
			if fi >= len(l.Files) {
				return core.Failf("piece %d section %d beyond the last file", pi, si)
			}
			wantOff := pos - offs[fi]
			if s.Offset != wantOff || s.Offset+s.Length > l.Files[fi].Length || s.Padding != (l.Files[fi].Pad != 0) || s.Name != info.Files[fi].Path {
				return core.Failf("piece %d section %d = {name %q off %d len %d pad %v}; model file %d (%q len %d pad %v) off %d",
					pi, si, s.Name, s.Offset, s.Length, s.Padding, fi, info.Files[fi].Path, l.Files[fi].Length, l.Files[fi].Pad != 0, wantOff)
			}
			if !s.Padding {
				mf, ok := s.File.(*sstore.MemFile)
				if !ok || mf.Name != info.Files[fi].Path {
					return core.Failf("piece %d section %d bound to wrong storage file", pi, si)
				}
			}
			pos += s.Length
			sum += s.Length
		}
		if sum != int64(p.Length) {
			return core.Failf("piece %d sections sum to %d, length %d", pi, sum, p.Length)
		}
	}
	if pos != l.Total() {
		return core.Failf("pieces cover %d bytes, total %d", pos, l.Total())
	}
	// (b) blocks cover exactly the non-padding bytes.
	for pi := range pieces {
		p := &pieces[pi]
		base := int64(pi) * int64(l.PieceLength)
		blocks := p.CalculateBlocks()
		covered := make([]bool, p.Length)
		var prevEnd uint32
		for bi, b := range blocks {
			if b.Length == 0 || b.Length > model.BlockSize {
				return core.Failf("piece %d block %d length %d", pi, bi, b.Length)
			}
			if uint64(b.Begin)+uint64(b.Length) > uint64(p.Length) {
				return core.Failf("piece %d block %d [%d,+%d) outside piece of %d", pi, bi, b.Begin, b.Length, p.Length)
			}
			if bi > 0 && b.Begin < prevEnd {
				return core.Failf("piece %d block %d begins at %d before previous end %d (overlap/unsorted)", pi, bi, b.Begin, prevEnd)
			}
			prevEnd = b.Begin + b.Length
			for j := b.Begin; j < b.Begin+b.Length; j++ {
				if mask[base+int64(j)] {
					return core.Failf("piece %d block %d [%d,+%d) covers padding byte %d", pi, bi, b.Begin, b.Length, j)
				}
				covered[j] = true
			}
		}
		for j := range covered {
			if !covered[j] && !mask[base+int64(j)] {
				return core.Failf("piece %d: data byte %d not covered by any block (blocks %v)", pi, j, blocks)
			}
		}
	}
	// (c) write every piece, read sub-ranges back.
	for pi := range pieces {
		p := &pieces[pi]
		base := int64(pi) * int64(l.PieceLength)
		n, err := p.Data.Write(F[base : base+int64(p.Length)])
		if err != nil {
			return core.Failf("piece %d write: %v", pi, err)
		}
		var nonpad int
		for j := int64(0); j < int64(p.Length); j++ {
			if !mask[base+j] {
				nonpad++
			}
		}
		if n != nonpad {
			return core.Failf("piece %d write returned %d, non-padding bytes %d", pi, n, nonpad)
		}
	}
	// storage image equals F file by file, padding files never opened/written
	snap := mem.Snapshot()
	for i, f := range l.Files {
		name := info.Files[i].Path
		if f.Pad != 0 {
			continue
		}
		if !bytes.Equal(snap[name], F[offs[i]:offs[i]+f.Length]) {
			return core.Failf("file %d %q differs from F after writing all pieces", i, name)
		}
	}
	nData := 0
	for _, f := range l.Files {
		if f.Pad == 0 {
			nData++
		}
	}
	if len(snap) != nData {
		return core.Failf("storage holds %d files, layout has %d data files", len(snap), nData)
	}
	for _, r := range c.Reads {
		pi := int(r[0] % uint32(len(pieces)))
		p := &pieces[pi]
		off := r[1] % p.Length
		ln := r[2]%(p.Length-off) + 1
		if r[2]%7 == 0 {
			ln = p.Length - off
		}
		buf := make([]byte, ln)
		n, err := p.Data.ReadAt(buf, int64(off))
		base := int64(pi)*int64(l.PieceLength) + int64(off)
		if err != nil || n != int(ln) {
			return core.Failf("piece %d ReadAt(off %d len %d) = %d, %v", pi, off, ln, n, err)
		}
		if !bytes.Equal(buf, F[base:base+int64(ln)]) {
			return core.Failf("piece %d ReadAt(off %d len %d) returns wrong bytes", pi, off, ln)
		}
	}
	// (d) verifier marks all; flipping one data byte unmarks exactly the piece covering it.
	bf, err := verify(pieces)
	if err != nil {
		return core.Failf("verify: %v", err)
	}
	for i := range pieces {
		if !bf(uint32(i)) {
			return core.Failf("verifier rejects piece %d after writing F", i)
		}
	}
	var dataPos []int64
	// choose a data byte to flip deterministically
	start := int64(c.Flip) % l.Total()
	for k := int64(0); k < l.Total(); k++ {
		q := (start + k) % l.Total()
		if !mask[q] {
			dataPos = append(dataPos, q)
			break
		}
	}
	if len(dataPos) == 1 {
		q := dataPos[0]
		fidx := sort.Search(len(offs), func(i int) bool { return offs[i] > q }) - 1
		for fidx+1 < len(offs) && offs[fidx+1] <= q { // skip zero-length files at same offset
			fidx++
		}
		// find the file really containing q
		for fidx >= 0 && !(offs[fidx] <= q && q < offs[fidx]+l.Files[fidx].Length) {
			fidx--
		}
		mf := mem.Files[info.Files[fidx].Path]
		mf.Data[q-offs[fidx]] ^= 0x01
		bf, err = verify(pieces)
		if err != nil {
			return core.Failf("verify: %v", err)
		}
		bad := uint32(q / int64(l.PieceLength))
		for i := range pieces {
			if bf(uint32(i)) == (uint32(i) == bad) {
				return core.Failf("after flipping byte %d (piece %d): verifier says piece %d ok=%v", q, bad, i, bf(uint32(i)))
			}
		}
	}
	return res
}

func verify(pieces []piece.Piece) (func(uint32) bool, error) {
	v := verifier.New()
	progressC := make(chan verifier.Progress)
	resultC := make(chan *verifier.Verifier, 1)
	go func() {
		for range progressC {
		}
	}()
	v.Run(pieces, progressC, resultC)
	close(progressC)
	if v.Error != nil {
		return nil, v.Error
	}
	return v.Bitfield.Test, nil
}

func TestGeometry(t *testing.T) { core.Run(t, "c02.geometry", genGeo, runGeo) }
