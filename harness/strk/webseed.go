package strk

import (
	"fmt"
	"net"
	"net/http"
	"net/url"
	"strconv"
	"strings"
	"sync"
	"time"
)

// WebSeed is a Range-aware HTTP file server over named byte slices (BEP 19 url-list semantics are the
// client's business: it asks for <base>/<name>/<path...> or <base> for single-file torrents).
type WebSeed struct {
	ln    net.Listener
	srv   *http.Server
	Files map[string][]byte // by URL path (leading slash, unescaped)
	// misbehaviour
	CorruptEveryN  int // flip a byte in every n-th response (0 = honest)
	TruncateAt     int // >0: responses are cut after this many body bytes (connection closed)
	StallMs        int // delay before answering
	IgnoreRange    bool
	Status         int    // non-zero: answer every request with this status
	OnStart, OnEnd func() // optional: called when a request arrives / when its handler returns
	// honest but slow: the StallNth-th response (1-based, 0 = none) pauses for StallBodyMs after StallAtByte body bytes
	StallNth, StallAtByte, StallBodyMs int

	active     map[int]*WSProgress
	lastChange time.Time

	mu          sync.Mutex
	Requests    []WSReq
	inFlight    int
	MaxInFlight int
}

// WSProgress describes a response in flight: Written is an upper bound of the body bytes the client can have read.
type WSProgress struct {
	Path    string
	Start   int64 // offset in the file of the first body byte
	Written int64
	Stalled bool
}

// InFlight returns the responses in flight and the time of the last change (request arrival, bytes handed to the
// connection, end of a response).
func (w *WebSeed) InFlight() ([]WSProgress, time.Time) {
	w.mu.Lock()
	defer w.mu.Unlock()
	var out []WSProgress
	for _, p := range w.active {
		out = append(out, *p)
	}
	return out, w.lastChange
}

type WSReq struct {
	At         time.Time
	Path       string
	Start, End int64 // inclusive range; -1 if none
}

func NewWebSeed(addr string, files map[string][]byte) (*WebSeed, error) {
	ln, err := net.Listen("tcp4", addr)
	if err != nil {
		return nil, err
	}
	w := &WebSeed{ln: ln, Files: files}
	w.srv = &http.Server{Handler: http.HandlerFunc(w.handle)}
	go w.srv.Serve(ln)
	return w, nil
}

func (w *WebSeed) URL() string { return "http://" + w.ln.Addr().String() + "/" }
func (w *WebSeed) Close()      { w.srv.Close() }

func (w *WebSeed) Log() []WSReq {
	w.mu.Lock()
	defer w.mu.Unlock()
	return append([]WSReq(nil), w.Requests...)
}

func (w *WebSeed) handle(rw http.ResponseWriter, r *http.Request) {
	p, err := url.PathUnescape(r.URL.EscapedPath())
	if err != nil {
		p = r.URL.Path
	}
	req := WSReq{At: time.Now(), Path: p, Start: -1, End: -1}
	if rg := r.Header.Get("Range"); strings.HasPrefix(rg, "bytes=") {
		a, b, _ := strings.Cut(rg[6:], "-")
		req.Start, _ = strconv.ParseInt(a, 10, 64)
		req.End, _ = strconv.ParseInt(b, 10, 64)
	}
	w.mu.Lock()
	w.Requests = append(w.Requests, req)
	nth := len(w.Requests)
	w.inFlight++
	if w.inFlight > w.MaxInFlight {
		w.MaxInFlight = w.inFlight
	}
	w.lastChange = time.Now()
	w.mu.Unlock()
	defer func() {
		w.mu.Lock()
		w.inFlight--
		delete(w.active, nth)
		w.lastChange = time.Now()
		w.mu.Unlock()
	}()
	if w.OnStart != nil {
		w.OnStart()
	}
	if w.OnEnd != nil {
		defer w.OnEnd()
	}
	if w.StallMs > 0 {
		time.Sleep(time.Duration(w.StallMs) * time.Millisecond)
	}
	if w.Status != 0 {
		rw.WriteHeader(w.Status)
		return
	}
	data, ok := w.Files[p]
	if !ok {
		rw.WriteHeader(404)
		return
	}
	start, end := int64(0), int64(len(data))-1
	status := 200
	if req.Start >= 0 && !w.IgnoreRange {
		start, end, status = req.Start, req.End, 206
		if start > int64(len(data)) || end >= int64(len(data)) || end < start {
			rw.WriteHeader(416)
			return
		}
		rw.Header().Set("Content-Range", fmt.Sprintf("bytes %d-%d/%d", start, end, len(data)))
	}
	body := append([]byte(nil), data[start:end+1]...)
	if w.CorruptEveryN > 0 && nth%w.CorruptEveryN == 0 && len(body) > 0 {
		body[len(body)/2] ^= 0x55
	}
	rw.Header().Set("Content-Length", strconv.Itoa(len(body)))
	rw.WriteHeader(status)
	prog := &WSProgress{Path: p, Start: start, Written: int64(len(body))}
	// at least one body byte is held back: a response whose body is complete is over for the client, which would
	// send its next request on the same connection while this handler still sleeps
	stall := w.StallNth == nth && w.StallBodyMs > 0 && len(body) > 0
	if stall {
		prog.Written = int64(min(w.StallAtByte, len(body)-1))
	}
	w.mu.Lock()
	if w.active == nil {
		w.active = map[int]*WSProgress{}
	}
	w.active[nth] = prog
	w.lastChange = time.Now()
	w.mu.Unlock()
	if stall {
		k := int(prog.Written)
		rw.Write(body[:k])
		if f, ok := rw.(http.Flusher); ok {
			f.Flush()
		}
		w.mu.Lock()
		prog.Stalled = true
		w.lastChange = time.Now()
		w.mu.Unlock()
		time.Sleep(time.Duration(w.StallBodyMs) * time.Millisecond)
		w.mu.Lock()
		prog.Stalled = false
		prog.Written = int64(len(body))
		w.lastChange = time.Now()
		w.mu.Unlock()
		rw.Write(body[k:])
		return
	}
	if w.TruncateAt > 0 && len(body) > w.TruncateAt {
		rw.Write(body[:w.TruncateAt]) // fewer bytes than the declared Content-Length: the server closes the connection
		return
	}
	rw.Write(body)
}
