// Package strk holds scripted trackers: an HTTP tracker answering with raw bytes and a BEP 15 UDP tracker,
// both recording exactly what they received and when. They decode requests with their own code.
package strk

import (
	"bufio"
	"encoding/binary"
	"fmt"
	"net"
	"net/url"
	"os"
	"strings"
	"sync"
	"sync/atomic"
	"time"
)

// ---------------- HTTP ----------------

// HTTPReq is one request as seen by the tracker.
type HTTPReq struct {
	At        time.Time
	Path      string
	RawQuery  string
	Params    map[string][]byte // percent-decoded values (first occurrence)
	Order     []string          // parameter names in order of appearance
	UserAgent string
	From      string
}

// HTTPTracker is a raw TCP HTTP/1.1 responder.
type HTTPTracker struct {
	ln    net.Listener
	mu    sync.Mutex
	Reqs  []HTTPReq
	Reply func(n int, r HTTPReq) []byte // complete raw response (status line, headers, body); nil = close without answering
	wg    sync.WaitGroup
}

var rot atomic.Uint32

// spread replaces the catch-all "127.0.0.1:0" by one of ~900 000 loopback addresses that changes with every call.
// Component-level units open a listener and one connection per case, hundreds of thousands of times in the thorough
// tier; on a single address the connections waiting in TIME_WAIT use up the ephemeral ports ("bind: address already
// in use"). Spread over many server addresses every (source, destination) pair is fresh.
func spread(addr string) string {
	if addr != "127.0.0.1:0" {
		return addr
	}
	n := rot.Add(1) + uint32(os.Getpid())*7919
	return fmt.Sprintf("127.%d.%d.%d:0", 241+n%14, (n>>8)&255, 1+n%254)
}

// NewHTTP starts a tracker on addr ("127.0.0.1:0").
func NewHTTP(addr string, reply func(n int, r HTTPReq) []byte) (*HTTPTracker, error) {
	ln, err := net.Listen("tcp", spread(addr))
	if err != nil {
		return nil, err
	}
	t := &HTTPTracker{ln: ln, Reply: reply}
	go t.serve()
	return t, nil
}

func (t *HTTPTracker) Addr() string { return t.ln.Addr().String() }
func (t *HTTPTracker) URL() string  { return "http://" + t.Addr() + "/announce" }
func (t *HTTPTracker) Close()       { t.ln.Close(); t.wg.Wait() }

// Requests returns a copy of the log.
func (t *HTTPTracker) Requests() []HTTPReq {
	t.mu.Lock()
	defer t.mu.Unlock()
	return append([]HTTPReq(nil), t.Reqs...)
}

func (t *HTTPTracker) serve() {
	for {
		c, err := t.ln.Accept()
		if err != nil {
			return
		}
		t.wg.Add(1)
		go func() {
			defer t.wg.Done()
			defer c.Close()
			_ = c.SetDeadline(time.Now().Add(20 * time.Second))
			br := bufio.NewReader(c)
			line, err := br.ReadString('\n')
			if err != nil {
				return
			}
			req := HTTPReq{At: time.Now(), From: c.RemoteAddr().String(), Params: map[string][]byte{}}
			parts := strings.Fields(line)
			if len(parts) >= 2 {
				target := parts[1]
				if i := strings.IndexByte(target, '?'); i >= 0 {
					req.Path, req.RawQuery = target[:i], target[i+1:]
				} else {
					req.Path = target
				}
			}
			for {
				h, err := br.ReadString('\n')
				if err != nil || h == "\r\n" || h == "\n" {
					break
				}
				if k, v, ok := strings.Cut(h, ":"); ok && strings.EqualFold(strings.TrimSpace(k), "user-agent") {
					req.UserAgent = strings.TrimSpace(v)
				}
			}
			for _, kv := range strings.Split(req.RawQuery, "&") {
				if kv == "" {
					continue
				}
				k, v, _ := strings.Cut(kv, "=")
				req.Order = append(req.Order, k)
				if _, dup := req.Params[k]; !dup {
					req.Params[k] = pctDecode(v)
				}
			}
			t.mu.Lock()
			t.Reqs = append(t.Reqs, req)
			n := len(t.Reqs) - 1
			t.mu.Unlock()
			if out := t.Reply(n, req); out != nil {
				_, _ = c.Write(out)
			}
		}()
	}
}

// pctDecode decodes %XX sequences (and '+') byte-exactly.
func pctDecode(s string) []byte {
	out := make([]byte, 0, len(s))
	for i := 0; i < len(s); i++ {
		switch {
		case s[i] == '%' && i+2 < len(s) && isHex(s[i+1]) && isHex(s[i+2]):
			out = append(out, unhex(s[i+1])<<4|unhex(s[i+2]))
			i += 2
		case s[i] == '+':
			out = append(out, ' ')
		default:
			out = append(out, s[i])
		}
	}
	return out
}

func isHex(c byte) bool { return c >= '0' && c <= '9' || c >= 'a' && c <= 'f' || c >= 'A' && c <= 'F' }
func unhex(c byte) byte {
	switch {
	case c >= '0' && c <= '9':
		return c - '0'
	case c >= 'a' && c <= 'f':
		return c - 'a' + 10
	}
	return c - 'A' + 10
}

// OKResponse wraps a body in a plain 200 response with Content-Length.
func OKResponse(body []byte) []byte {
	return append([]byte(fmt.Sprintf("HTTP/1.1 200 OK\r\nContent-Type: text/plain\r\nContent-Length: %d\r\nConnection: close\r\n\r\n", len(body))), body...)
}

var _ = url.QueryEscape

// ---------------- UDP (BEP 15) ----------------

// UDPReq is one datagram as seen by the tracker.
type UDPReq struct {
	At     time.Time
	Raw    []byte
	From   *net.UDPAddr
	Action uint32 // 0 connect, 1 announce, 2 scrape
	TID    uint32
	ConnID uint64
	// announce fields
	InfoHash, PeerID     [20]byte
	Downloaded, Left, Up uint64
	Event                uint32
	IP, Key              uint32
	NumWant              int32
	Port                 uint16
	Extra                []byte // bytes after the fixed 98-byte announce
}

// UDPTracker is a scripted BEP 15 endpoint.
type UDPTracker struct {
	conn  *net.UDPConn
	mu    sync.Mutex
	Reqs  []UDPReq
	Reply func(n int, r UDPReq) [][]byte // datagrams to send back, in order
	done  chan struct{}
}

func NewUDP(addr string, reply func(n int, r UDPReq) [][]byte) (*UDPTracker, error) {
	ua, err := net.ResolveUDPAddr("udp4", spread(addr))
	if err != nil {
		return nil, err
	}
	c, err := net.ListenUDP("udp4", ua)
	if err != nil {
		return nil, err
	}
	t := &UDPTracker{conn: c, Reply: reply, done: make(chan struct{})}
	go t.serve()
	return t, nil
}

func (t *UDPTracker) Addr() string { return t.conn.LocalAddr().String() }
func (t *UDPTracker) URL() string  { return "udp://" + t.Addr() + "/announce" }
func (t *UDPTracker) Close()       { t.conn.Close(); <-t.done }
func (t *UDPTracker) Requests() []UDPReq {
	t.mu.Lock()
	defer t.mu.Unlock()
	return append([]UDPReq(nil), t.Reqs...)
}

func (t *UDPTracker) serve() {
	defer close(t.done)
	buf := make([]byte, 65536)
	for {
		n, from, err := t.conn.ReadFromUDP(buf)
		if err != nil {
			return
		}
		r := UDPReq{At: time.Now(), Raw: append([]byte(nil), buf[:n]...), From: from}
		b := r.Raw
		if len(b) >= 16 {
			r.ConnID = binary.BigEndian.Uint64(b)
			r.Action = binary.BigEndian.Uint32(b[8:])
			r.TID = binary.BigEndian.Uint32(b[12:])
		}
		if r.Action == 1 && len(b) >= 98 {
			copy(r.InfoHash[:], b[16:36])
			copy(r.PeerID[:], b[36:56])
			r.Downloaded = binary.BigEndian.Uint64(b[56:])
			r.Left = binary.BigEndian.Uint64(b[64:])
			r.Up = binary.BigEndian.Uint64(b[72:])
			r.Event = binary.BigEndian.Uint32(b[80:])
			r.IP = binary.BigEndian.Uint32(b[84:])
			r.Key = binary.BigEndian.Uint32(b[88:])
			r.NumWant = int32(binary.BigEndian.Uint32(b[92:]))
			r.Port = binary.BigEndian.Uint16(b[96:])
			r.Extra = b[98:]
		}
		t.mu.Lock()
		t.Reqs = append(t.Reqs, r)
		idx := len(t.Reqs) - 1
		t.mu.Unlock()
		for _, d := range t.Reply(idx, r) {
			_, _ = t.conn.WriteToUDP(d, from)
		}
	}
}

// ConnectReply builds a BEP 15 connect response.
func ConnectReply(tid uint32, connID uint64) []byte {
	b := binary.BigEndian.AppendUint32(nil, 0)
	b = binary.BigEndian.AppendUint32(b, tid)
	return binary.BigEndian.AppendUint64(b, connID)
}

// AnnounceReply builds a BEP 15 announce response.
func AnnounceReply(tid uint32, interval, leechers, seeders uint32, peers []byte) []byte {
	b := binary.BigEndian.AppendUint32(nil, 1)
	b = binary.BigEndian.AppendUint32(b, tid)
	b = binary.BigEndian.AppendUint32(b, interval)
	b = binary.BigEndian.AppendUint32(b, leechers)
	b = binary.BigEndian.AppendUint32(b, seeders)
	return append(b, peers...)
}

// ErrorReply builds a BEP 15 error response.
func ErrorReply(tid uint32, msg []byte) []byte {
	b := binary.BigEndian.AppendUint32(nil, 3)
	b = binary.BigEndian.AppendUint32(b, tid)
	return append(b, msg...)
}
