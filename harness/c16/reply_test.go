package c16

import (
	"context"
	"encoding/binary"
	"fmt"
	"net"
	"net/http"
	"net/url"
	"runtime"
	"strings"
	"sync/atomic"
	"testing"
	"time"

	"github.com/cenkalti/rain/v2/internal/tracker"
	"github.com/cenkalti/rain/v2/internal/tracker/httptracker"
	"github.com/cenkalti/rain/v2/internal/tracker/udptracker"
	"github.com/cenkalti/rain/v2/verifharness/core"
	"github.com/cenkalti/rain/v2/verifharness/model"
	"github.com/cenkalti/rain/v2/verifharness/strk"
	"pgregory.net/rapid"
)

// ---------- HTTP reply bodies ----------

type HTTPReplyCase struct {
	Limit   int    `json:"limit"`   // configured maximum response length
	Fields  []KV   `json:"fields"`  // reply dictionary, in emission order
	RawBody []byte `json:"raw"`     // used instead of Fields when non-nil
	Framing string `json:"framing"` // length | chunked | close
	PadTo   int    `json:"pad_to"`  // pad body with a trailing key up to this size (oversize replies)
	Status  int    `json:"status"`
}
type KV struct {
	K string `json:"k"`
	T string `json:"t"` // int | str | raw | peersdict
	I int64  `json:"i,omitempty"`
	S []byte `json:"s,omitempty"`
}

var replyKeys = []string{"interval", "min interval", "peers", "peers6", "failure reason", "retry in", "warning message", "tracker id", "complete", "incomplete", "external ip", "x"}

func genHTTPReply(t *rapid.T) HTTPReplyCase {
	c := HTTPReplyCase{Limit: rapid.SampledFrom([]int{1 << 10, 16 << 10, 64 << 10, 2 << 20}).Draw(t, "limit")}
	c.Framing = rapid.SampledFrom([]string{"length", "length", "chunked", "close"}).Draw(t, "framing")
	c.Status = rapid.SampledFrom([]int{200, 200, 200, 404, 500, 302}).Draw(t, "status")
	if rapid.IntRange(0, 7).Draw(t, "rawBody") == 0 {
		c.RawBody = []byte(rapid.SampledFrom([]string{"", "<html>nope</html>", "d", "de", "i1e", "le", "d8:intervali1800e5:peers2147483647:e", "d5:peers99999999999:e",
			"d8:intervali1800e5:peersld2:ip2147483647:xeee", "d14:failure reason999999:xe", strings.Repeat("l", 100000) + strings.Repeat("e", 100000),
			"d5:peers" + strings.Repeat("l", 3000000)}).Draw(t, "raw"))
		return c
	}
	n := rapid.IntRange(0, 6).Draw(t, "nfields")
	for i := 0; i < n; i++ {
		kv := KV{K: rapid.SampledFrom(replyKeys).Draw(t, "k")}
		switch rapid.IntRange(0, 5).Draw(t, "t") {
		case 0, 1:
			kv.T = "int"
			kv.I = rapid.SampledFrom([]int64{0, 1, -1, 1800, 1<<31 - 1, 1 << 31, -1 << 31, 1 << 40, -1 << 63}).Draw(t, "i")
		case 2:
			kv.T = "str"
			ln := rapid.SampledFrom([]int{0, 1, 4, 5, 6, 7, 12, 18, 600, 6000}).Draw(t, "slen")
			kv.S = make([]byte, ln)
			for j := range kv.S {
				kv.S[j] = byte(j*37 + 1)
			}
		case 3:
			kv.T = "peersdict"
			kv.I = int64(rapid.IntRange(0, 4).Draw(t, "npeers"))
			kv.S = []byte(rapid.SampledFrom([]string{"10.0.0.1", "::1", "example.com", "", "999.1.1.1", "10.0.0.1:80", "2001:db8::1"}).Draw(t, "ipstr"))
		default:
			kv.T = "raw"
			kv.S = []byte(rapid.SampledFrom([]string{"le", "de", "i-0e", "ld2:ipi5e4:porti70000eee", "ld4:port3:abcee", "l1:ae", "2147483647:", "d1:ad1:bd1:cdeeee"}).Draw(t, "rawv"))
		}
		c.Fields = append(c.Fields, kv)
	}
	if rapid.IntRange(0, 4).Draw(t, "oversize") == 0 {
		c.PadTo = c.Limit + rapid.SampledFrom([]int{-1, 0, 1, 100, 4 << 20}).Draw(t, "over")
	}
	return c
}

func (c *HTTPReplyCase) body() []byte {
	if c.RawBody != nil {
		return c.RawBody
	}
	d := model.OrderedDict{}
	for _, f := range c.Fields {
		switch f.T {
		case "int":
			d = append(d, model.KV{K: f.K, V: f.I})
		case "str":
			d = append(d, model.KV{K: f.K, V: f.S})
		case "raw":
			d = append(d, model.KV{K: f.K, V: model.Raw(f.S)})
		case "peersdict":
			var l []any
			for i := int64(0); i < f.I; i++ {
				l = append(l, map[string]any{"ip": string(f.S), "port": int64(1000 + i), "peer id": "01234567890123456789"})
			}
			d = append(d, model.KV{K: f.K, V: l})
		}
	}
	b := model.Benc(d)
	if c.PadTo > len(b)+10 {
		pad := c.PadTo - len(b) - 10
		b = append(b[:len(b)-1], []byte(fmt.Sprintf("2:zz%d:", pad))...)
		b = append(b, make([]byte, pad)...)
		b = append(b, 'e')
	}
	return b
}

type countConn struct {
	net.Conn
	n *int64
}

func (c countConn) Read(p []byte) (int, error) {
	n, err := c.Conn.Read(p)
	atomic.AddInt64(c.n, int64(n))
	return n, err
}

func runHTTPReply(c HTTPReplyCase) core.Result {
	body := c.body()
	var raw []byte
	status := fmt.Sprintf("HTTP/1.1 %d X\r\n", c.Status)
	switch c.Framing {
	case "length":
		raw = append([]byte(status+fmt.Sprintf("Content-Length: %d\r\nConnection: close\r\n\r\n", len(body))), body...)
	case "chunked":
		raw = []byte(status + "Transfer-Encoding: chunked\r\nConnection: close\r\n\r\n")
		for off := 0; off < len(body); off += 30000 {
			end := min(off+30000, len(body))
			raw = append(raw, []byte(fmt.Sprintf("%x\r\n", end-off))...)
			raw = append(raw, body[off:end]...)
			raw = append(raw, "\r\n"...)
		}
		raw = append(raw, "0\r\n\r\n"...)
	default:
		raw = append([]byte(status+"Connection: close\r\n\r\n"), body...)
	}
	tr, err := strk.NewHTTP("127.0.0.1:0", func(n int, r strk.HTTPReq) []byte { return raw })
	if err != nil {
		panic(err)
	}
	defer tr.Close()
	var read int64
	transport := &http.Transport{DisableKeepAlives: true, DialContext: func(ctx context.Context, network, addr string) (net.Conn, error) {
		var d net.Dialer
		conn, err := d.DialContext(ctx, network, addr)
		if err != nil {
			return nil, err
		}
		return countConn{conn, &read}, nil
	}}
	u, _ := url.Parse(tr.URL())
	ht := httptracker.New(tr.URL(), u, 5*time.Second, transport, "UA", int64(c.Limit))
	var ms0, ms1 runtime.MemStats
	runtime.ReadMemStats(&ms0)
	var resp *tracker.AnnounceResponse
	var aerr error
	ok, p := core.Watchdog(30*time.Second, func() {
		resp, aerr = ht.Announce(context.Background(), tracker.AnnounceRequest{NumWant: 50})
	})
	if !ok {
		core.Die("c16.httpreply", c, "Announce did not return within 30 s (client timeout is 5 s)")
	}
	if p != nil {
		return core.Failf("Announce panicked: %v", p)
	}
	runtime.ReadMemStats(&ms1)
	res := core.Result{Nontrivial: true, Labels: []string{c.Framing}}
	if len(body) > 3000 {
		res.Sample = map[string]any{"limit": c.Limit, "framing": c.Framing, "status": c.Status, "body_len": len(body), "body_head": string(body[:200])}
	}
	if alloc := ms1.TotalAlloc - ms0.TotalAlloc; alloc > uint64(16*c.Limit+(4<<20)) {
		return core.Failf("Announce allocated %d bytes with a response limit of %d (body %d bytes)", alloc, c.Limit, len(body))
	}
	if r := atomic.LoadInt64(&read); r > int64(c.Limit)+(256<<10) {
		return core.Failf("client read %d bytes from the tracker connection; configured response limit is %d", r, c.Limit)
	}
	if len(body) > c.Limit {
		res.Labels = append(res.Labels, "oversize")
		if aerr == nil {
			return core.Failf("a reply of %d bytes was accepted although the response limit is %d", len(body), c.Limit)
		}
	}
	if aerr != nil {
		res.Labels = append(res.Labels, "error")
		return res
	}
	res.Labels = append(res.Labels, "accepted")
	for i, pe := range resp.Peers {
		if pe == nil || (len(pe.IP) != 4 && len(pe.IP) != 16) || pe.Port < 0 || pe.Port > 65535 {
			return core.Failf("accepted reply yields malformed peer %d: %#v (body %q)", i, pe, clipb(body))
		}
	}
	return res
}

func clipb(b []byte) []byte {
	if len(b) > 300 {
		return b[:300]
	}
	return b
}

func TestHTTPReply(t *testing.T) { core.Run(t, "c16.httpreply", genHTTPReply, runHTTPReply) }

// ---------- UDP datagram sequences ----------

type UDPReplyCase struct {
	Connect  []DG `json:"connect"`  // datagrams sent in answer to the connect request
	Announce []DG `json:"announce"` // datagrams sent in answer to the announce request
}
type DG struct {
	Kind   string `json:"kind"` // ok | wrongtid | short | error-text | error-benc | badaction | oddpeers | raw
	NPeers int    `json:"npeers,omitempty"`
	Raw    []byte `json:"raw,omitempty"`
	Text   []byte `json:"text,omitempty"`
}

func genDGs(t *rapid.T, l string, announce bool) []DG {
	var out []DG
	n := rapid.IntRange(1, 4).Draw(t, l+"N")
	for i := 0; i < n; i++ {
		d := DG{Kind: rapid.SampledFrom([]string{"ok", "ok", "wrongtid", "short", "error-text", "error-benc", "badaction", "oddpeers", "raw", "dup"}).Draw(t, l+"Kind")}
		d.NPeers = rapid.SampledFrom([]int{0, 1, 2, 50, 200}).Draw(t, l+"NPeers")
		switch d.Kind {
		case "raw":
			d.Raw = rapid.SliceOfN(rapid.Byte(), 0, 30).Draw(t, l+"Raw")
		case "error-text":
			d.Text = []byte(rapid.SampledFrom([]string{"", "torrent not registered", "d14:failure reason", "2147483647:"}).Draw(t, l+"Text"))
		case "error-benc":
			d.Text = []byte(rapid.SampledFrom([]string{"d14:failure reason4:nopee", "d14:failure reason2147483647:e", "d8:retry in99999999999:e", "d14:failure reason4:nope8:retry in3:abce", "le",
				strings.Repeat("l", 2000) + strings.Repeat("e", 2000)}).Draw(t, l+"Benc"))
		}
		out = append(out, d)
	}
	return out
}

func genUDPReply(t *rapid.T) UDPReplyCase {
	c := UDPReplyCase{Connect: genDGs(t, "c", false), Announce: genDGs(t, "a", true)}
	// keep the case fast: the client retransmits only after 15 s, so make sure the connect step is answered
	hasOK := false
	for _, d := range c.Connect {
		if d.Kind == "ok" {
			hasOK = true
		}
	}
	if !hasOK {
		c.Connect = append(c.Connect, DG{Kind: "ok"})
	}
	return c
}

const foreignIP = 0x09090909

func peersBytes(n int, ip uint32) []byte {
	var b []byte
	for i := 0; i < n; i++ {
		b = binary.BigEndian.AppendUint32(b, ip+uint32(i))
		b = binary.BigEndian.AppendUint16(b, uint16(2000+i))
	}
	return b
}

func build(d DG, r strk.UDPReq, connect bool) [][]byte {
	switch d.Kind {
	case "ok":
		if connect {
			return [][]byte{strk.ConnectReply(r.TID, 0xABCDEF)}
		}
		return [][]byte{strk.AnnounceReply(r.TID, 1800, 1, 2, peersBytes(d.NPeers, 0x0a000001))}
	case "dup":
		if connect {
			return [][]byte{strk.ConnectReply(r.TID, 0xABCDEF), strk.ConnectReply(r.TID, 0xABCDEF)}
		}
		x := strk.AnnounceReply(r.TID, 1800, 1, 2, peersBytes(d.NPeers, 0x0a000001))
		return [][]byte{x, x}
	case "wrongtid": // a reply for some other transaction, carrying recognisable foreign content
		if connect {
			return [][]byte{strk.ConnectReply(r.TID^0x5a5a5a5a, 0xBAD)}
		}
		return [][]byte{strk.AnnounceReply(r.TID^0x5a5a5a5a, 1, 9, 9, peersBytes(max(d.NPeers, 1), foreignIP))}
	case "short":
		full := strk.AnnounceReply(r.TID, 1800, 1, 2, nil)
		return [][]byte{full[:8+d.NPeers%12]}
	case "error-text", "error-benc":
		return [][]byte{strk.ErrorReply(r.TID, d.Text)}
	case "badaction":
		if connect {
			return [][]byte{strk.AnnounceReply(r.TID, 1800, 1, 2, nil)}
		}
		return [][]byte{strk.ConnectReply(r.TID, 0xABCDEF)}
	case "oddpeers":
		return [][]byte{strk.AnnounceReply(r.TID, 1800, 1, 2, append(peersBytes(d.NPeers, 0x0a000001), 1, 2, 3))}
	default:
		return [][]byte{d.Raw}
	}
}

func runUDPReply(c UDPReplyCase) core.Result {
	var annSeen int32
	ut, err := strk.NewUDP("127.0.0.1:0", func(n int, r strk.UDPReq) [][]byte {
		var out [][]byte
		if r.Action == 0 {
			for _, d := range c.Connect {
				out = append(out, build(d, r, true)...)
			}
			return out
		}
		if atomic.AddInt32(&annSeen, 1) > 1 {
			return nil
		}
		for _, d := range c.Announce {
			out = append(out, build(d, r, false)...)
		}
		return out
	})
	if err != nil {
		panic(err)
	}
	defer ut.Close()
	u, _ := url.Parse(ut.URL())
	tp := udptracker.NewTransport(nil, 2*time.Second)
	go tp.Run()
	defer tp.Close()
	tk := udptracker.New(ut.URL(), u, tp)
	ctx, cancel := context.WithTimeout(context.Background(), 1500*time.Millisecond)
	defer cancel()
	var ms0, ms1 runtime.MemStats
	runtime.ReadMemStats(&ms0)
	var resp *tracker.AnnounceResponse
	var aerr error
	ok, p := core.Watchdog(20*time.Second, func() {
		resp, aerr = tk.Announce(ctx, tracker.AnnounceRequest{NumWant: 50})
	})
	if !ok {
		core.Die("c16.udpreply", c, "UDP Announce did not return within 20 s although its context expired after 1.5 s")
	}
	if p != nil {
		return core.Failf("UDP Announce panicked: %v", p)
	}
	runtime.ReadMemStats(&ms1)
	if alloc := ms1.TotalAlloc - ms0.TotalAlloc; alloc > 8<<20 {
		return core.Failf("UDP announce allocated %d bytes handling datagrams of at most a few KiB", alloc)
	}
	res := core.Result{Nontrivial: true}
	// expected outcome: decided by the first datagram carrying the request's transaction id
	first := func(ds []DG) string {
		for _, d := range ds {
			if d.Kind != "wrongtid" && !(d.Kind == "raw" || (d.Kind == "short" && false)) {
				return d.Kind
			}
		}
		return ""
	}
	_ = first
	if aerr != nil {
		res.Labels = append(res.Labels, "error")
		return res
	}
	res.Labels = append(res.Labels, "accepted")
	for i, pe := range resp.Peers {
		if pe == nil || (len(pe.IP) != 4 && len(pe.IP) != 16) || pe.Port < 0 || pe.Port > 65535 {
			return core.Failf("accepted reply yields malformed peer %d: %#v", i, pe)
		}
		if ip := pe.IP.To4(); ip != nil && binary.BigEndian.Uint32(ip)&0xffffff00 == foreignIP&0xffffff00 {
			return core.Failf("the reply returned to the caller contains peer %v, which was only ever sent in a datagram with a foreign transaction id", pe)
		}
	}
	if resp.Interval == time.Second {
		return core.Failf("the reply returned to the caller has the interval of the datagram with a foreign transaction id")
	}
	return res
}

func TestUDPReply(t *testing.T) { core.Run(t, "c16.udpreply", genUDPReply, runUDPReply) }
