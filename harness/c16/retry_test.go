package c16

import (
	"context"
	"errors"
	"fmt"
	"net"
	"net/url"
	"sync"
	"testing"
	"time"

	"github.com/cenkalti/rain/v2/internal/announcer"
	"github.com/cenkalti/rain/v2/internal/logger"
	"github.com/cenkalti/rain/v2/internal/tracker"
	"github.com/cenkalti/rain/v2/internal/tracker/udptracker"
	"github.com/cenkalti/rain/v2/verifharness/core"
	"github.com/cenkalti/rain/v2/verifharness/strk"
	"pgregory.net/rapid"
)

// RetryCase: several announcers in parallel, each facing a tracker whose first announces end without a reply.
type RetryCase struct {
	Scripts []RetryScript `json:"scripts"`
	// SharedUDP: two torrents share one UDP tracker connection; the first one is stopped while the connect
	// request is still unanswered, which aborts the second one's announce.
	SharedUDP     bool `json:"shared_udp"`
	StopFirstAtMs int  `json:"stop_first_at_ms"`
	SecondAtMs    int  `json:"second_at_ms"`
}
type RetryScript struct {
	Fails []string `json:"fails"` // outcome of the first announces: error | timeout | foreign-cancel | trackererr
	AtMs  []int    `json:"at_ms"` // how long each failing announce takes
}

func genRetry(t *rapid.T) RetryCase {
	var c RetryCase
	for i := 0; i < 12; i++ {
		var s RetryScript
		for k := rapid.IntRange(1, 2).Draw(t, "nfails"); k > 0; k-- {
			s.Fails = append(s.Fails, rapid.SampledFrom([]string{"error", "timeout", "foreign-cancel", "foreign-cancel", "trackererr"}).Draw(t, "fail"))
			s.AtMs = append(s.AtMs, rapid.SampledFrom([]int{0, 1, 20, 200}).Draw(t, "at"))
		}
		c.Scripts = append(c.Scripts, s)
	}
	c.SharedUDP = true
	c.SecondAtMs = rapid.SampledFrom([]int{0, 5, 30, 60}).Draw(t, "secondAt")
	c.StopFirstAtMs = c.SecondAtMs + rapid.SampledFrom([]int{5, 20, 80, 200}).Draw(t, "stopFirstAfter")
	return c
}

type timeoutErr struct{}

func (timeoutErr) Error() string   { return "stub: i/o timeout" }
func (timeoutErr) Timeout() bool   { return true }
func (timeoutErr) Temporary() bool { return true }

var _ net.Error = timeoutErr{}

type retryStub struct {
	mu     sync.Mutex
	script *RetryScript
	calls  []time.Time // arrival
	ended  []time.Time // end of failing call (zero if answered)
}

func (s *retryStub) URL() string { return "stub://retry" }
func (s *retryStub) Announce(ctx context.Context, req tracker.AnnounceRequest) (*tracker.AnnounceResponse, error) {
	s.mu.Lock()
	n := len(s.calls)
	s.calls = append(s.calls, time.Now())
	s.ended = append(s.ended, time.Time{})
	s.mu.Unlock()
	if n >= len(s.script.Fails) {
		return &tracker.AnnounceResponse{Interval: time.Hour}, nil
	}
	select {
	case <-time.After(time.Duration(s.script.AtMs[n]) * time.Millisecond):
	case <-ctx.Done():
		return nil, ctx.Err()
	}
	s.mu.Lock()
	s.ended[n] = time.Now()
	s.mu.Unlock()
	switch s.script.Fails[n] {
	case "timeout":
		return nil, timeoutErr{}
	case "foreign-cancel":
		// what the shared UDP transport returns when the torrent that owns the connect attempt is stopped
		return nil, context.Canceled
	case "trackererr":
		return nil, &tracker.Error{FailureReason: "busy"}
	}
	return nil, errors.New("stub: connection refused")
}

// backoffBound: first retry after at most InitialInterval*(1+RandomizationFactor) = 7.5 s; the second at most 15 s.
const (
	firstRetryBound = 7500 * time.Millisecond
	slack           = 700 * time.Millisecond
	runFor          = 8600 * time.Millisecond
)

func newAnn(trk tracker.Tracker) (*announcer.PeriodicalAnnouncer, func()) {
	newPeers := make(chan []*net.TCPAddr)
	stop := make(chan struct{})
	go func() {
		for {
			select {
			case <-newPeers:
			case <-stop:
				return
			}
		}
	}()
	a := announcer.NewPeriodicalAnnouncer(trk, 50, time.Minute, func() tracker.Torrent { return tracker.Torrent{Port: 1} }, make(chan struct{}), newPeers, logger.New("a"))
	return a, func() { close(stop) }
}

func runRetry(c RetryCase) core.Result {
	res := core.Result{Nontrivial: true}
	errs := make([]string, len(c.Scripts)+1)
	stall := core.WatchStalls()
	defer stall.Stop()
	var wg sync.WaitGroup
	for i := range c.Scripts {
		wg.Add(1)
		go func(i int) {
			defer wg.Done()
			st := &retryStub{script: &c.Scripts[i]}
			a, done := newAnn(st)
			defer done()
			go a.Run()
			time.Sleep(runFor)
			// when the process was descheduled meanwhile the retry timer and this sleep expire together: give the
			// announcer the time that was lost (plus a second) before closing it
			for dl := time.Now().Add(stall.Lost() + time.Second); stall.Lost() > 0 && time.Now().Before(dl); time.Sleep(20 * time.Millisecond) {
				st.mu.Lock()
				n := len(st.calls)
				st.mu.Unlock()
				if n >= 2 {
					break
				}
			}
			a.Close()
			st.mu.Lock()
			defer st.mu.Unlock()
			// the first failing announce must be followed by another announce within the bound
			if st.ended[0].IsZero() {
				errs[i] = "first announce never ended"
				return
			}
			if len(st.calls) < 2 {
				errs[i] = fmt.Sprintf("the first announce ended without a reply (%s) after %d ms and no further announce was made in the following %v (back-off bound for the first retry is %v)",
					c.Scripts[i].Fails[0], c.Scripts[i].AtMs[0], time.Since(st.ended[0]).Round(time.Millisecond), firstRetryBound)
				return
			}
			if gap := st.calls[1].Sub(st.ended[0]); gap > firstRetryBound+slack+stall.Lost() {
				errs[i] = fmt.Sprintf("retry after a failed announce came %v later, bound %v (process descheduled for %v meanwhile)", gap, firstRetryBound, stall.Lost())
			}
		}(i)
	}
	if c.SharedUDP {
		res.Labels = append(res.Labels, "shared-udp")
		wg.Add(1)
		go func() {
			defer wg.Done()
			errs[len(c.Scripts)] = sharedUDP(c)
		}()
	}
	wg.Wait()
	for i, e := range errs {
		if e != "" {
			if i == len(c.Scripts) {
				return core.Failf("shared UDP connection: %s", e)
			}
			return core.Failf("script %d: %s", i, e)
		}
	}
	for _, s := range c.Scripts {
		res.Labels = append(res.Labels, s.Fails[0])
	}
	return res
}

// sharedUDP: torrents A and B announce to the same UDP tracker through one transport. The tracker leaves the first
// connect request unanswered; A is stopped meanwhile. Later connect requests are answered at once.
func sharedUDP(c RetryCase) string {
	var mu sync.Mutex
	connects := 0
	var announces []strk.UDPReq
	ut, err := strk.NewUDP("127.0.0.1:0", func(n int, r strk.UDPReq) [][]byte {
		mu.Lock()
		defer mu.Unlock()
		if r.Action == 0 {
			connects++
			if connects == 1 {
				return nil // never answered
			}
			return [][]byte{strk.ConnectReply(r.TID, 77)}
		}
		announces = append(announces, r)
		return [][]byte{strk.AnnounceReply(r.TID, 3600, 0, 0, nil)}
	})
	if err != nil {
		panic(err)
	}
	defer ut.Close()
	u, _ := url.Parse(ut.URL())
	tp := udptracker.NewTransport(nil, 2*time.Second)
	go tp.Run()
	defer tp.Close()
	a, doneA := newAnn(udptracker.New(ut.URL(), u, tp))
	defer doneA()
	b, doneB := newAnn(udptracker.New(ut.URL(), u, tp))
	defer doneB()
	start := time.Now()
	go a.Run()
	// B must queue behind A's connect attempt: wait until the tracker has seen A's connect request
	for i := 0; ; i++ {
		mu.Lock()
		n := connects
		mu.Unlock()
		if n >= 1 {
			break
		}
		if i > 2000 {
			return "" // A's connect request never arrived (not the scenario under test)
		}
		time.Sleep(time.Millisecond)
	}
	time.Sleep(time.Duration(c.SecondAtMs) * time.Millisecond)
	go b.Run()
	time.Sleep(time.Duration(c.StopFirstAtMs-c.SecondAtMs) * time.Millisecond)
	a.Close() // torrent A stops: its pending connect attempt is abandoned
	stopped := time.Now()
	time.Sleep(time.Until(start.Add(runFor)))
	st := b.Stats()
	b.Close()
	mu.Lock()
	defer mu.Unlock()
	if len(announces) == 0 {
		return fmt.Sprintf("torrent B's announce was aborted when torrent A (which shared the tracker connection) stopped; %v later B still has not announced again (status %d, connect requests seen %d); back-off bound is %v",
			time.Since(stopped).Round(time.Millisecond), st.Status, connects, firstRetryBound)
	}
	return ""
}

func TestRetry(t *testing.T) { core.Run(t, "c16.retry", genRetry, runRetry) }
