package c16

import (
	"context"
	"errors"
	"fmt"
	"os"
	"sync"
	"testing"
	"time"

	"github.com/cenkalti/rain/v2/internal/logger"
	"github.com/cenkalti/rain/v2/internal/tracker"
	"github.com/cenkalti/rain/v2/verifharness/core"
	"pgregory.net/rapid"
)

func TestMain(m *testing.M) {
	logger.Disable()
	os.Exit(m.Run())
}

// TierCase: a tier of N members and a history of announces. Each step is one announce (Batch==nil) with an
// outcome, or a batch of concurrent announces that all start before any of them finishes.
type TierCase struct {
	N     int        `json:"n"`
	Steps []TierStep `json:"steps"`
}
type TierStep struct {
	OK    bool   `json:"ok,omitempty"`
	Batch []bool `json:"batch,omitempty"`
}

func genTier(t *rapid.T) TierCase {
	c := TierCase{N: rapid.IntRange(1, 5).Draw(t, "n")}
	n := rapid.IntRange(1, 60).Draw(t, "steps")
	if rapid.IntRange(0, 5).Draw(t, "long") == 0 {
		n = rapid.IntRange(60, 200).Draw(t, "stepsLong")
	}
	pFail := rapid.SampledFrom([]int{1, 3, 5, 8, 9, 10}).Draw(t, "pFail") // out of 10
	for i := 0; i < n; i++ {
		if rapid.IntRange(0, 9).Draw(t, "isBatch") == 0 {
			k := rapid.IntRange(2, 4).Draw(t, "k")
			var b []bool
			for j := 0; j < k; j++ {
				b = append(b, rapid.IntRange(0, 9).Draw(t, "bok") >= pFail)
			}
			c.Steps = append(c.Steps, TierStep{Batch: b})
		} else {
			c.Steps = append(c.Steps, TierStep{OK: rapid.IntRange(0, 9).Draw(t, "ok") >= pFail})
		}
	}
	return c
}

type stubTracker struct {
	id    int
	mu    sync.Mutex
	calls int
	// gate: when non-nil, Announce reports its arrival and waits for an outcome
	arrive chan int
	result chan bool
	next   bool
}

func (s *stubTracker) URL() string { return fmt.Sprintf("stub://%d", s.id) }
func (s *stubTracker) Announce(ctx context.Context, req tracker.AnnounceRequest) (*tracker.AnnounceResponse, error) {
	s.mu.Lock()
	s.calls++
	gated := s.arrive != nil
	ok := s.next
	s.mu.Unlock()
	if gated {
		s.arrive <- s.id
		ok = <-s.result
	}
	if ok {
		return &tracker.AnnounceResponse{Interval: time.Minute}, nil
	}
	return nil, errors.New("stub failure")
}

func runTier(c TierCase) core.Result {
	stubs := make([]*stubTracker, c.N)
	members := make([]tracker.Tracker, c.N)
	for i := range stubs {
		stubs[i] = &stubTracker{id: i}
		members[i] = stubs[i]
	}
	tier := tracker.NewTier(members)
	// order after the constructor's shuffle
	order := make([]*stubTracker, c.N)
	for i, m := range tier.Trackers {
		order[i] = m.(*stubTracker)
	}
	cur := 0 // model: index into order
	fails, cycles, batches := 0, 0, 0
	for si, st := range c.Steps {
		want := order[cur]
		if u := tier.URL(); u != want.URL() {
			return core.Failf("step %d: URL() = %s, the model's current member is %s (position %d of %d)", si, u, want.URL(), cur, c.N)
		}
		if st.Batch == nil {
			before := snapshot(order)
			want.next = st.OK
			_, err := tier.Announce(context.Background(), tracker.AnnounceRequest{})
			if (err == nil) != st.OK {
				return core.Failf("step %d: announce returned err=%v, stub outcome ok=%v", si, err, st.OK)
			}
			if who := whoWasCalled(before, snapshot(order)); who != cur {
				return core.Failf("step %d: announce went to member at position %d, expected position %d of %d (after %d failures, %d full cycles)", si, who, cur, c.N, fails, cycles)
			}
			if !st.OK {
				fails++
				cur = (cur + 1) % c.N
				if cur == 0 {
					cycles++
				}
			}
			continue
		}
		// concurrent batch: all arrive at the same member before any outcome is delivered
		batches++
		arrive, result := make(chan int, len(st.Batch)), make(chan bool)
		for _, s := range order {
			s.mu.Lock()
			s.arrive, s.result = arrive, result
			s.mu.Unlock()
		}
		var wg sync.WaitGroup
		for range st.Batch {
			wg.Add(1)
			go func() {
				defer wg.Done()
				_, _ = tier.Announce(context.Background(), tracker.AnnounceRequest{})
			}()
		}
		for range st.Batch {
			select {
			case id := <-arrive:
				if id != want.id {
					return core.Failf("step %d: a concurrent announce went to %d, expected current member %d", si, id, want.id)
				}
			case <-time.After(5 * time.Second):
				return core.Failf("step %d: concurrent announces did not all reach the tracker", si)
			}
		}
		anyFail := false
		for _, ok := range st.Batch {
			result <- ok
			if !ok {
				anyFail = true
			}
		}
		wg.Wait()
		for _, s := range order {
			s.mu.Lock()
			s.arrive, s.result = nil, nil
			s.mu.Unlock()
		}
		if anyFail {
			fails++
			cur = (cur + 1) % c.N
			if cur == 0 {
				cycles++
			}
		}
	}
	res := core.Result{Nontrivial: c.N >= 2 && cycles >= 1}
	if cycles >= 1 {
		res.Labels = append(res.Labels, "wrapped")
	}
	if cycles >= 3 {
		res.Labels = append(res.Labels, "3+cycles")
	}
	if batches > 0 {
		res.Labels = append(res.Labels, "concurrent")
	}
	return res
}

func snapshot(order []*stubTracker) []int {
	out := make([]int, len(order))
	for i, s := range order {
		s.mu.Lock()
		out[i] = s.calls
		s.mu.Unlock()
	}
	return out
}

func whoWasCalled(a, b []int) int {
	who := -1
	for i := range a {
		if b[i] != a[i] {
			if who != -1 || b[i] != a[i]+1 {
				return -2
			}
			who = i
		}
	}
	return who
}

func TestTier(t *testing.T) { core.Run(t, "c16.tier", genTier, runTier) }
