package c17

import (
	"bytes"
	"fmt"
	"io"
	"net"
	"runtime/debug"
	"sort"
	"strings"
	"sync"
	"sync/atomic"
	"testing"
	"time"

	"github.com/cenkalti/rain/v2/torrent"
	"github.com/cenkalti/rain/v2/verifharness/core"
	"github.com/cenkalti/rain/v2/verifharness/model"
	"github.com/cenkalti/rain/v2/verifharness/refwire"
	"github.com/cenkalti/rain/v2/verifharness/sess"
	"github.com/cenkalti/rain/v2/verifharness/speer"
	"github.com/cenkalti/rain/v2/verifharness/sstore"
	"github.com/cenkalti/rain/v2/verifharness/strk"
	"pgregory.net/rapid"
)

// c17.session: the configured limits observed from outside a real session, one scenario per case:
//
//	queue   - upload request queue per peer (MaxRequestsIn) with a slow disk: every request of a fast-extension peer is
//	          answered exactly once, at least min(burst, limit) are served, and once the queue has drained a burst of
//	          exactly `limit` fresh requests is served completely (a leaked slot would reject one)
//	ram     - memory reserved for pieces (WriteCacheSize of 1-2 pieces) with 2-4 seeders and slow writes, ended by
//	          completion / stop / remove / stop+start: never above the limit, back to zero when quiet
//	accept  - MaxPeerAccept with good, wrong-hash, garbage, silent and half-handshake connections: established plus
//	          handshaking incoming connections never above the limit; every connection whose handshake failed or timed
//	          out is closed by the client
//	dial    - MaxPeerDial and MaxPeerAddresses with listeners that accept and never answer
//	reqout  - MaxRequestsOut / DefaultRequestsOut against the reqq a scripted seeder advertises (absent, below, above, huge):
//	          requests that have arrived at the seeder and are not yet answered never exceed min(max, reqq or default)
//	rate    - SpeedLimitUpload: bytes received in T seconds <= limit * (T + 1 s of burst) + one message
//	webseed - WebseedMaxSources / WebseedMaxDownloads with more sources in the torrent than allowed
type SessCase struct {
	Scenario string       `json:"scenario"`
	L        model.Layout `json:"layout"`
	// queue
	Q      int  `json:"max_requests_in,omitempty"`
	Extra  int  `json:"extra,omitempty"`
	Fast   bool `json:"fast,omitempty"`
	ReadMs int  `json:"read_ms,omitempty"`
	// ram
	CachePieces int    `json:"write_cache_pieces,omitempty"`
	Seeders     int    `json:"seeders,omitempty"`
	BlockMs     int    `json:"block_ms,omitempty"`
	WriteMs     int    `json:"write_ms,omitempty"`
	End         string `json:"end,omitempty"` // complete | stop | remove | stopstart
	EndAtMs     int    `json:"end_at_ms,omitempty"`
	Cycles      int    `json:"cycles,omitempty"`          // stop / stopstart: number of stops (the torrent is started again in between)
	Partial     bool   `json:"partial_seeders,omitempty"` // every seeder lacks one piece (the client keeps such peers when it completes)
	// accept / dial
	Limit int      `json:"limit,omitempty"`
	Kinds []string `json:"kinds,omitempty"`
	Addrs int      `json:"max_addresses,omitempty"`
	// rate
	KBps int `json:"kbps,omitempty"`
	// reqout
	MaxOut     int `json:"max_requests_out,omitempty"`
	DefaultOut int `json:"default_requests_out,omitempty"`
	Reqq       int `json:"reqq,omitempty"` // advertised by the scripted seeder (0 = not advertised)
	// webseed
	Sources      int `json:"sources,omitempty"`
	MaxSources   int `json:"max_sources,omitempty"`
	MaxDownloads int `json:"max_downloads,omitempty"`
}

func genSessCase(t *rapid.T) SessCase {
	c := SessCase{Scenario: rapid.SampledFrom([]string{"queue", "queue", "ram", "ram", "ram", "ram", "accept", "dial", "rate", "webseed", "reqout"}).Draw(t, "scenario")}
	opts := model.LayoutOpts{MaxTotal: 512 << 10, MaxPieces: 24, MaxFiles: 2, NoPadding: true, BigPieces: true}
	switch c.Scenario {
	case "ram":
		opts.MaxTotal, opts.MaxPieces = 256<<10, 10
	case "accept", "dial":
		opts.MaxTotal, opts.MaxPieces = 64<<10, 4
	}
	c.L = model.GenLayout(t, opts)
	grow := func(minTotal int64) {
		if d := minTotal - c.L.Total(); d > 0 {
			c.L.Files[len(c.L.Files)-1].Length += d // NoPadding: the last file is a data file
		}
	}
	switch c.Scenario {
	case "queue":
		grow(16384 * int64(rapid.IntRange(8, 40).Draw(t, "minBlocks")))
		nb := int((c.L.Total() + 16383) / 16384)
		c.Q = rapid.IntRange(1, min(8, nb/4)).Draw(t, "q")
		c.Extra = rapid.IntRange(0, 2*c.Q+1).Draw(t, "extra")
		c.Fast = rapid.IntRange(0, 3).Draw(t, "fast") != 0
		c.ReadMs = rapid.SampledFrom([]int{10, 25, 40}).Draw(t, "readMs")
	case "ram":
		c.CachePieces = rapid.IntRange(1, 3).Draw(t, "cachePieces")
		c.Seeders = rapid.IntRange(2, 5).Draw(t, "seeders")
		c.BlockMs = rapid.SampledFrom([]int{0, 2, 8, 20}).Draw(t, "blockMs")
		c.WriteMs = rapid.SampledFrom([]int{0, 5, 20}).Draw(t, "writeMs")
		c.End = rapid.SampledFrom([]string{"complete", "stop", "stop", "remove", "stopstart"}).Draw(t, "end")
		c.EndAtMs = rapid.IntRange(5, 250).Draw(t, "endAt")
		c.Partial = rapid.Bool().Draw(t, "partial")
		if c.End == "stop" || c.End == "stopstart" {
			c.Cycles = rapid.IntRange(1, 5).Draw(t, "cycles")
			c.BlockMs = rapid.SampledFrom([]int{8, 20}).Draw(t, "slowBlockMs") // so that the stops fall into the download
			c.EndAtMs = rapid.IntRange(10, 120).Draw(t, "endAtShort")
			grow(int64(c.L.PieceLength) * int64(rapid.IntRange(4, 8).Draw(t, "minPieces")))
		}
	case "accept":
		c.Limit = rapid.IntRange(1, 4).Draw(t, "limit")
		n := c.Limit + rapid.IntRange(0, 5).Draw(t, "over")
		for i := 0; i < n; i++ {
			c.Kinds = append(c.Kinds, rapid.SampledFrom([]string{"good", "good", "badhash", "garbage", "silent", "partial"}).Draw(t, "kind"))
		}
	case "dial":
		c.Limit = rapid.IntRange(1, 4).Draw(t, "limit")
		n := c.Limit + rapid.IntRange(1, 5).Draw(t, "over")
		for i := 0; i < n; i++ {
			c.Kinds = append(c.Kinds, rapid.SampledFrom([]string{"silent", "silent", "good"}).Draw(t, "kind"))
		}
		c.Addrs = rapid.IntRange(1, 6).Draw(t, "maxAddrs")
	case "reqout":
		// pieces of 8-16 blocks so that a piece has more blocks than any limit under test
		pl := uint32(rapid.SampledFrom([]int{131072, 262144, 200000}).Draw(t, "bigPL"))
		c.L = model.Layout{Name: "big", PieceLength: pl, Single: true, Seed: c.L.Seed,
			Files: []model.FileSpec{{Path: []string{"big"}, Length: int64(pl)*int64(rapid.IntRange(1, 3).Draw(t, "npieces")) + int64(rapid.IntRange(0, 40000).Draw(t, "tailLen"))}}}
		c.MaxOut = rapid.IntRange(1, 8).Draw(t, "maxOut")
		c.DefaultOut = rapid.SampledFrom([]int{0, 0, 2, 5}).Draw(t, "defaultOut")
		c.Reqq = rapid.SampledFrom([]int{0, 1, 3, 50, 250, 2000, 65535}).Draw(t, "reqq")
		c.BlockMs = rapid.SampledFrom([]int{2, 5}).Draw(t, "blockMs")
		c.Seeders = rapid.IntRange(1, 2).Draw(t, "seeders")
	case "rate":
		c.KBps = rapid.SampledFrom([]int{32, 64, 100}).Draw(t, "kbps")
		grow(int64(c.KBps)*1024*3 + 64<<10) // more than the limit lets through in the window
	case "webseed":
		c.Sources = rapid.IntRange(1, 6).Draw(t, "sources")
		c.MaxSources = rapid.IntRange(1, 4).Draw(t, "maxSources")
		c.MaxDownloads = rapid.IntRange(1, 3).Draw(t, "maxDownloads")
		c.BlockMs = rapid.SampledFrom([]int{10, 30}).Draw(t, "stallMs")
	}
	return c
}

type env struct {
	c     *SessCase
	l     *model.Layout
	F     []byte
	ih    [20]byte
	cfg   torrent.Config
	prov  *sstore.Provider
	ses   *torrent.Session
	tor   *torrent.Torrent
	addr  string
	lab   map[string]bool
	count map[string]int
}

type block struct{ i, b, l int }

func (e *env) blocks() []block {
	var out []block
	for i := 0; i < e.l.NumPieces(); i++ {
		pl := e.l.PieceLen(i)
		for b := 0; b < pl; b += 16384 {
			out = append(out, block{i, b, min(16384, pl-b)})
		}
	}
	return out
}

func (e *env) start(complete bool, urls []string) string {
	l := e.l
	offs := l.FileOffsets()
	e.prov.Setup = func(id string, m *sstore.Mem) {
		if e.c.ReadMs > 0 {
			d := time.Duration(e.c.ReadMs) * time.Millisecond
			m.ReadHook = func() { time.Sleep(d) }
		}
		if e.c.WriteMs > 0 {
			d := time.Duration(e.c.WriteMs) * time.Millisecond
			m.WriteHook = func(string, int64, []byte) { time.Sleep(d) }
		}
		if !complete {
			return
		}
		for i, f := range l.Files {
			if f.Pad == 0 {
				m.Files[l.ExpectedPath(i)] = sstore.NewMemFile(m, l.ExpectedPath(i), append([]byte(nil), e.F[offs[i]:offs[i]+f.Length]...))
			}
		}
	}
	e.cfg.CustomStorage = e.prov
	ses, err := torrent.NewSession(e.cfg)
	if err != nil {
		return "INCONCLUSIVE session: " + err.Error()
	}
	e.ses = ses
	tor, err := ses.AddTorrent(bytes.NewReader(l.Metainfo(e.F, nil, urls)), nil)
	if err != nil {
		return fmt.Sprintf("adding a valid torrent failed: %v", err)
	}
	e.tor = tor
	e.addr = fmt.Sprintf("%s:%d", sess.IP(0), tor.Port())
	want := torrent.Downloading
	if complete {
		want = torrent.Seeding
	}
	for i := 0; i < 500; i++ {
		if tor.Stats().Status == want {
			return ""
		}
		time.Sleep(10 * time.Millisecond)
	}
	return fmt.Sprintf("INCONCLUSIVE torrent is %v after 5 s, want %v", tor.Stats().Status, want)
}

func (e *env) dialLeecher(k int, fast bool) (*speer.Peer, error) {
	var id [20]byte
	copy(id[:], fmt.Sprintf("-LE0001-%012d", k))
	var p *speer.Peer
	var err error
	for try := 0; try < 40; try++ {
		p, err = speer.Dial(sess.IP(10+k), e.addr, speer.Opts{InfoHash: e.ih, PeerID: id, Fast: fast, Ext: true, Reqq: 250}, 2*time.Second)
		if err == nil || !strings.Contains(err.Error(), "refused") {
			break
		}
		time.Sleep(25 * time.Millisecond)
	}
	return p, err
}

// ---- queue ----

func (e *env) runQueue() string {
	c := e.c
	e.cfg.MaxRequestsIn = c.Q
	e.cfg.ReadCacheBlockSize = 16384
	e.cfg.ReadCacheSize = 64 << 10
	if msg := e.start(true, nil); msg != "" {
		return msg
	}
	bl := e.blocks()
	burst := min(c.Q+c.Extra, len(bl)-c.Q)
	if burst < 1 {
		return "INCONCLUSIVE torrent has too few blocks"
	}
	p, err := e.dialLeecher(0, c.Fast)
	if err != nil {
		return "INCONCLUSIVE leecher cannot connect: " + err.Error()
	}
	defer p.Close()
	fast := c.Fast && p.ClientFast()
	if fast {
		p.Send(refwire.Msg{Kind: "havenone"})
	}
	p.Send(refwire.Msg{Kind: "interested"})
	if _, ok := p.WaitFor(0, 3*time.Second, func(m refwire.Msg) bool { return m.Kind == "unchoke" }); !ok {
		return "INCONCLUSIVE leecher was not unchoked"
	}
	send := func(bs []block) {
		var buf []byte
		for _, b := range bs {
			buf = append(buf, refwire.Encode(refwire.Msg{Kind: "request", Index: uint32(b.i), Begin: uint32(b.b), Length: uint32(b.l)})...)
		}
		p.SendRaw(buf, nil) // one write: the requests arrive together
	}
	// collect answers for the set sent from log position `from`
	collect := func(from int, bs []block, wantAll bool) (pieces, rejects int, msg string) {
		want := map[[2]int]int{}
		for _, b := range bs {
			want[[2]int{b.i, b.b}] = b.l
		}
		answered := map[[2]int]string{}
		deadline := time.Now().Add(time.Duration(len(bs)*c.ReadMs)*time.Millisecond + 4*time.Second)
		lastAnswer := time.Now()
		pos := from
		for time.Now().Before(deadline) {
			log := p.Log()
			for ; pos < len(log); pos++ {
				ev := log[pos]
				if ev.Out {
					continue
				}
				m := ev.Msg
				if m.Kind != "piece" && m.Kind != "reject" {
					if m.Kind == "choke" {
						return pieces, rejects, "INCONCLUSIVE choked during the burst"
					}
					continue
				}
				key := [2]int{int(m.Index), int(m.Begin)}
				l, ok := want[key]
				if !ok {
					return pieces, rejects, fmt.Sprintf("%s for piece %d begin %d, which was not requested in this burst", m.Kind, m.Index, m.Begin)
				}
				if prev, dup := answered[key]; dup {
					return pieces, rejects, fmt.Sprintf("request (piece %d, begin %d) answered twice: %s then %s", m.Index, m.Begin, prev, m.Kind)
				}
				answered[key] = m.Kind
				lastAnswer = time.Now()
				if m.Kind == "piece" {
					base := int(m.Index)*int(e.l.PieceLength) + int(m.Begin)
					if len(m.Data) != l || !bytes.Equal(m.Data, e.F[base:base+l]) {
						return pieces, rejects, fmt.Sprintf("piece %d begin %d: wrong data", m.Index, m.Begin)
					}
					pieces++
				} else {
					rejects++
				}
			}
			if len(answered) == len(bs) {
				return pieces, rejects, ""
			}
			// without the fast extension over-limit requests are dropped silently: stop when the guaranteed part has
			// arrived and nothing more came for a while (never on silence alone - a loaded machine is slow, not wrong)
			if !wantAll && pieces >= min(len(bs), c.Q) && time.Since(lastAnswer) > time.Duration(3*c.ReadMs+400)*time.Millisecond {
				return pieces, rejects, ""
			}
			if p.Closed() {
				return pieces, rejects, "INCONCLUSIVE connection closed"
			}
			time.Sleep(5 * time.Millisecond)
		}
		if wantAll {
			return pieces, rejects, fmt.Sprintf("only %d of %d requests were answered (%d served, %d rejected) by a peer with the fast extension", len(answered), len(bs), pieces, rejects)
		}
		return pieces, rejects, ""
	}
	from := p.LogLen()
	send(bl[:burst])
	pieces, rejects, msg := collect(from, bl[:burst], fast)
	if msg != "" {
		return msg
	}
	if pieces < min(burst, c.Q) {
		return fmt.Sprintf("burst of %d requests with a queue limit of %d: only %d served (%d rejected)", burst, c.Q, pieces, rejects)
	}
	if !fast && rejects > 0 {
		e.lab["reject-without-fast-extension"] = true
	}
	if rejects > 0 {
		e.lab["over-limit-rejected"] = true
	}
	if burst > c.Q {
		e.lab["burst-over-limit"] = true
	}
	// phase 2: the queue is empty now; exactly `limit` fresh requests must all be served
	time.Sleep(time.Duration(2*c.ReadMs+50) * time.Millisecond)
	second := bl[burst : burst+c.Q]
	from = p.LogLen()
	send(second)
	p2, r2, msg := collect(from, second, true)
	if msg != "" && !strings.HasPrefix(msg, "only ") {
		return msg
	}
	if p2 != len(second) {
		return fmt.Sprintf("after a burst of %d requests (limit %d; %d served, %d rejected) had been answered and the queue was empty, %d fresh requests were sent together: %d served, %d rejected - queue slots were not given back",
			burst, c.Q, pieces, rejects, len(second), p2, r2)
	}
	return ""
}

// ---- ram ----

func (e *env) runRAM() string {
	c := e.c
	limit := int64(c.CachePieces) * int64(e.l.PieceLength)
	e.cfg.WriteCacheSize = limit
	e.cfg.EndgameMaxDuplicateDownloads = 3
	if msg := e.start(false, nil); msg != "" {
		return msg
	}
	var maxSeen, maxObj atomic.Int64
	stopSample := make(chan struct{})
	var swg sync.WaitGroup
	swg.Add(1)
	go func() {
		defer swg.Done()
		for {
			select {
			case <-stopSample:
				return
			default:
			}
			st := e.ses.Stats()
			if st.WriteCacheSize > maxSeen.Load() {
				maxSeen.Store(st.WriteCacheSize)
			}
			if int64(st.WriteCacheObjects) > maxObj.Load() {
				maxObj.Store(int64(st.WriteCacheObjects))
			}
			time.Sleep(time.Millisecond)
		}
	}()
	var lns []net.Listener
	var pmu sync.Mutex
	var peers []*speer.Peer
	for k := 0; k < c.Seeders; k++ {
		ln, err := net.Listen("tcp4", sess.IP(10+k)+":0")
		if err != nil {
			panic(err)
		}
		lns = append(lns, ln)
		k := k
		go func() {
			for {
				conn, err := ln.Accept()
				if err != nil {
					return
				}
				go func() {
					var id [20]byte
					copy(id[:], fmt.Sprintf("-SP0001-%012d", k))
					p, err := speer.Accept(conn, speer.Opts{InfoHash: e.ih, PeerID: id, Fast: true, Ext: true, Reqq: 250}, 3*time.Second)
					if err != nil {
						return
					}
					pmu.Lock()
					peers = append(peers, p)
					pmu.Unlock()
					beh := speer.Behaviour{DelayPerBlockMs: c.BlockMs}
					if np := e.l.NumPieces(); c.Partial && np >= 2 {
						beh.Have = make([]bool, np)
						for i := range beh.Have {
							beh.Have[i] = i != k%np
						}
						if c.Seeders > np && k >= np {
							beh.Have[k%np] = true
							beh.Have[(k+1)%np] = false
						}
					}
					if c.Partial {
						p.Send(refwire.Msg{Kind: "interested"}) // the client keeps interested peers when it completes
					}
					speer.Serve(p, beh, e.F, int(e.l.PieceLength))
				}()
			}
		}()
		_ = e.tor.AddPeer(ln.Addr().String())
	}
	defer func() {
		for _, ln := range lns {
			ln.Close()
		}
		pmu.Lock()
		for _, p := range peers {
			p.Close()
		}
		pmu.Unlock()
	}()
	end := c.End
	if end != "complete" {
		time.Sleep(time.Duration(c.EndAtMs) * time.Millisecond)
		if st := e.tor.Stats(); st.Status == torrent.Downloading && st.Pieces.Have < st.Pieces.Total {
			e.lab["ram-ended-mid-download"] = true
			if ss := e.ses.Stats(); ss.WriteCachePendingKeys > 0 {
				e.lab["ram-ended-with-queued-requests"] = true
			}
		}
	}
	switch end {
	case "complete":
		select {
		case <-e.tor.NotifyComplete():
			e.lab["ram-completed"] = true
			if c.Partial {
				e.lab["ram-completed-with-peers-kept"] = true
			}
		case <-time.After(20 * time.Second):
			close(stopSample)
			swg.Wait()
			st := e.tor.Stats()
			ss := e.ses.Stats()
			return fmt.Sprintf("STUCK: download from %d honest seeders did not complete in 20 s (status %v, %d/%d pieces, peers %d; write cache %d bytes in %d objects, %d pending, limit %d)",
				c.Seeders, st.Status, st.Pieces.Have, st.Pieces.Total, st.Peers.Total, ss.WriteCacheSize, ss.WriteCacheObjects, ss.WriteCachePendingKeys, limit)
		}
	case "stop", "stopstart":
		for cyc := 0; ; cyc++ {
			_ = e.tor.Stop()
			for i := 0; i < 300 && e.tor.Stats().Status != torrent.Stopped; i++ {
				time.Sleep(10 * time.Millisecond)
			}
			if cyc+1 >= max(c.Cycles, 1) {
				break
			}
			// a stopped torrent downloads nothing: every reservation must be back
			zero := false
			var ss torrent.SessionStats
			for i := 0; i < 150 && !zero; i++ {
				ss = e.ses.Stats()
				zero = ss.WriteCacheSize == 0 && ss.WriteCacheObjects == 0 && ss.WriteCachePendingKeys == 0
				if !zero {
					time.Sleep(10 * time.Millisecond)
				}
			}
			if !zero {
				close(stopSample)
				swg.Wait()
				return fmt.Sprintf("1.5 s after the torrent was stopped (stop #%d) the write cache still holds %d bytes in %d objects with %d pending requests: a reservation was not released", cyc+1, ss.WriteCacheSize, ss.WriteCacheObjects, ss.WriteCachePendingKeys)
			}
			_ = e.tor.Start()
			for _, ln := range lns {
				_ = e.tor.AddPeer(ln.Addr().String())
			}
			time.Sleep(time.Duration(c.EndAtMs) * time.Millisecond)
			if st := e.tor.Stats(); st.Status == torrent.Downloading && st.Pieces.Have < st.Pieces.Total {
				if ss := e.ses.Stats(); ss.WriteCachePendingKeys > 0 {
					e.lab["ram-ended-with-queued-requests"] = true
				}
			}
			e.lab["ram-stop-cycles"] = true
		}
		if end == "stopstart" {
			_ = e.tor.Start()
			for _, ln := range lns {
				_ = e.tor.AddPeer(ln.Addr().String())
			}
			select {
			case <-e.tor.NotifyComplete():
				e.lab["ram-completed"] = true
			case <-time.After(20 * time.Second):
				close(stopSample)
				swg.Wait()
				st := e.tor.Stats()
				ss := e.ses.Stats()
				return fmt.Sprintf("STUCK: after stop+start the download from %d honest seeders did not complete in 20 s (status %v, %d/%d pieces, peers %d; write cache %d bytes in %d objects, %d pending, limit %d)",
					c.Seeders, st.Status, st.Pieces.Have, st.Pieces.Total, st.Peers.Total, ss.WriteCacheSize, ss.WriteCacheObjects, ss.WriteCachePendingKeys, limit)
			}
		}
	case "remove":
		if err := e.ses.RemoveTorrent(e.tor.ID(), true); err != nil {
			return fmt.Sprintf("RemoveTorrent: %v", err)
		}
	}
	e.lab["ram-end-"+end] = true
	// quiet: everything reserved must come back
	var ss torrent.SessionStats
	ok := false
	for i := 0; i < 300; i++ {
		ss = e.ses.Stats()
		if ss.WriteCacheSize == 0 && ss.WriteCacheObjects == 0 && ss.WriteCachePendingKeys == 0 {
			ok = true
			break
		}
		time.Sleep(10 * time.Millisecond)
	}
	close(stopSample)
	swg.Wait()
	if m := maxSeen.Load(); m > limit {
		return fmt.Sprintf("write cache held %d bytes, the configured limit is %d (piece length %d)", m, limit, e.l.PieceLength)
	}
	if maxSeen.Load() >= limit {
		e.lab["ram-limit-reached"] = true
	}
	if !ok {
		return fmt.Sprintf("3 s after the torrent %s (no piece is being downloaded or written) the write cache still holds %d bytes in %d objects with %d pending requests: a reservation was not released",
			map[string]string{"complete": "completed", "stop": "was stopped", "stopstart": "completed after stop+start", "remove": "was removed"}[end], ss.WriteCacheSize, ss.WriteCacheObjects, ss.WriteCachePendingKeys)
	}
	return ""
}

// ---- accept ----

type rawConn struct {
	kind     string
	conn     net.Conn
	peer     *speer.Peer
	closedAt atomic.Int64 // unix nano; 0 = still open
	err      string
}

func (e *env) runAccept() string {
	c := e.c
	e.cfg.MaxPeerAccept = c.Limit
	e.cfg.PeerHandshakeTimeout = 600 * time.Millisecond
	// A socket that nobody closes is closed by its finalizer whenever the garbage collector happens to run. That is
	// not the client closing it: keep the collector out of the picture for the length of this scenario.
	defer debug.SetGCPercent(debug.SetGCPercent(-1))
	if msg := e.start(true, nil); msg != "" {
		return msg
	}
	var maxIn atomic.Int64
	stopSample := make(chan struct{})
	var swg sync.WaitGroup
	swg.Add(1)
	go func() {
		defer swg.Done()
		for {
			select {
			case <-stopSample:
				return
			default:
			}
			st := e.tor.Stats()
			if n := int64(st.Peers.Incoming + st.Handshakes.Incoming); n > maxIn.Load() {
				maxIn.Store(n)
			}
			time.Sleep(2 * time.Millisecond)
		}
	}()
	conns := make([]*rawConn, len(c.Kinds))
	var wg sync.WaitGroup
	for i, kind := range c.Kinds {
		i, kind := i, kind
		rc := &rawConn{kind: kind}
		conns[i] = rc
		wg.Add(1)
		go func() {
			defer wg.Done()
			watch := func(conn net.Conn) {
				buf := make([]byte, 4096)
				for {
					if _, err := conn.Read(buf); err != nil {
						rc.closedAt.Store(time.Now().UnixNano())
						return
					}
				}
			}
			if kind == "good" {
				var id [20]byte
				copy(id[:], fmt.Sprintf("-GD0001-%012d", i))
				p, err := speer.Dial(sess.IP(10+i), e.addr, speer.Opts{InfoHash: e.ih, PeerID: id, Fast: true, Ext: true, Reqq: 250}, 2*time.Second)
				if err != nil {
					rc.err = err.Error()
					rc.closedAt.Store(time.Now().UnixNano())
					return
				}
				rc.peer = p
				return
			}
			d := net.Dialer{Timeout: 2 * time.Second, LocalAddr: &net.TCPAddr{IP: net.ParseIP(sess.IP(10 + i))}}
			conn, err := d.Dial("tcp4", e.addr)
			if err != nil {
				rc.err = err.Error()
				rc.closedAt.Store(time.Now().UnixNano())
				return
			}
			rc.conn = conn
			hs := append([]byte("\x13BitTorrent protocol"), make([]byte, 8)...)
			switch kind {
			case "badhash":
				hs = append(hs, bytes.Repeat([]byte{0xee}, 20)...)
				hs = append(hs, []byte("-BH0001-000000000000")...)
				conn.Write(hs)
			case "garbage":
				conn.Write(bytes.Repeat([]byte("GET / HTTP/1.1\r\n"), 8))
			case "partial":
				conn.Write(hs[:10])
			case "silent":
			}
			go watch(conn)
		}()
	}
	wg.Wait()
	// handshake timeout plus slack
	time.Sleep(e.cfg.PeerHandshakeTimeout + 2200*time.Millisecond)
	close(stopSample)
	swg.Wait()
	defer func() {
		for _, rc := range conns {
			if rc.conn != nil {
				rc.conn.Close()
			}
			if rc.peer != nil {
				rc.peer.Close()
			}
		}
	}()
	if m := maxIn.Load(); m > int64(c.Limit) {
		return fmt.Sprintf("%d incoming connections (established + handshaking) were counted at one moment, the accept limit is %d", m, c.Limit)
	}
	goodOpen := 0
	var kept []string
	for i, rc := range conns {
		switch {
		case rc.kind == "good":
			if rc.peer != nil && !rc.peer.Closed() {
				goodOpen++
			}
		case rc.closedAt.Load() == 0:
			kept = append(kept, fmt.Sprintf("#%d %s", i, rc.kind))
		}
	}
	if len(kept) > 0 {
		st := e.tor.Stats()
		return fmt.Sprintf("%v after they were opened (handshake timeout %v) the client still holds open %d connections whose handshake failed or never happened: %v (accept limit %d; client counts %d peers, %d handshakes)",
			e.cfg.PeerHandshakeTimeout+2200*time.Millisecond, e.cfg.PeerHandshakeTimeout, len(kept), kept, c.Limit, st.Peers.Incoming, st.Handshakes.Incoming)
	}
	if goodOpen > c.Limit {
		return fmt.Sprintf("%d handshaked incoming connections are open, the accept limit is %d", goodOpen, c.Limit)
	}
	if len(c.Kinds) > c.Limit {
		e.lab["accept-over-limit"] = true
	}
	for _, k := range c.Kinds {
		e.lab["accept-"+k] = true
	}
	return ""
}

// ---- dial ----

func (e *env) runDial() string {
	c := e.c
	e.cfg.MaxPeerDial = c.Limit
	e.cfg.MaxPeerAddresses = c.Addrs
	e.cfg.PeerHandshakeTimeout = 500 * time.Millisecond
	e.cfg.PeerConnectTimeout = 500 * time.Millisecond
	if msg := e.start(false, nil); msg != "" {
		return msg
	}
	// every connection the client dialed: [accepted, closed) as seen by the listener
	type span struct{ from, to time.Time }
	var spans []*span
	var spmu sync.Mutex
	var lns []net.Listener
	var held []net.Conn
	var hmu sync.Mutex
	for i, kind := range c.Kinds {
		ln, err := net.Listen("tcp4", sess.IP(10+i)+":0")
		if err != nil {
			panic(err)
		}
		lns = append(lns, ln)
		i, kind := i, kind
		go func() {
			for {
				conn, err := ln.Accept()
				if err != nil {
					return
				}
				sp := &span{from: time.Now()}
				spmu.Lock()
				spans = append(spans, sp)
				spmu.Unlock()
				hmu.Lock()
				held = append(held, conn)
				hmu.Unlock()
				go func() {
					defer func() {
						spmu.Lock()
						sp.to = time.Now()
						spmu.Unlock()
					}()
					if kind == "good" {
						var id [20]byte
						copy(id[:], fmt.Sprintf("-GD0001-%012d", i))
						p, err := speer.Accept(conn, speer.Opts{InfoHash: e.ih, PeerID: id, Fast: true, Ext: true, Reqq: 250, MSEOptional: true}, 2*time.Second)
						if err != nil {
							conn.Close()
							return
						}
						// an empty peer: has nothing, stays connected
						p.Send(refwire.Msg{Kind: "havenone"})
						for !p.Closed() {
							time.Sleep(10 * time.Millisecond)
						}
						return
					}
					buf := make([]byte, 4096)
					for {
						if _, err := conn.Read(buf); err != nil {
							return
						}
					}
				}()
			}
		}()
	}
	defer func() {
		for _, ln := range lns {
			ln.Close()
		}
		hmu.Lock()
		for _, c := range held {
			c.Close()
		}
		hmu.Unlock()
	}()
	var maxOut, maxAddr atomic.Int64
	stopSample := make(chan struct{})
	var swg sync.WaitGroup
	swg.Add(1)
	go func() {
		defer swg.Done()
		for {
			select {
			case <-stopSample:
				return
			default:
			}
			st := e.tor.Stats()
			if n := int64(st.Peers.Outgoing + st.Handshakes.Outgoing); n > maxOut.Load() {
				maxOut.Store(n)
			}
			if n := int64(st.Addresses.Total); n > maxAddr.Load() {
				maxAddr.Store(n)
			}
			time.Sleep(2 * time.Millisecond)
		}
	}()
	for _, ln := range lns {
		_ = e.tor.AddPeer(ln.Addr().String())
	}
	// more addresses than the list may hold (nothing listens there)
	for k := 0; k < 3*c.Addrs+4; k++ {
		_ = e.tor.AddPeer(fmt.Sprintf("%s:%d", sess.IP(100+k%10), 1+k))
	}
	time.Sleep(1500 * time.Millisecond)
	close(stopSample)
	swg.Wait()
	if m := maxOut.Load(); m > int64(c.Limit) {
		return fmt.Sprintf("%d outgoing connections (established + handshaking) were counted at one moment, the dial limit is %d", m, c.Limit)
	}
	// Overlap of the connections at the listeners. The client closes a failed connection before it dials the next
	// one, but the listener may notice the close after it has accepted the new connection: a connection counts as
	// open only until 150 ms before its close was noticed.
	spmu.Lock()
	maxOpen := 0
	now := time.Now()
	for _, a := range spans {
		n := 0
		for _, b := range spans {
			to := b.to
			if to.IsZero() {
				to = now
			} else {
				to = to.Add(-150 * time.Millisecond)
			}
			if !b.from.After(a.from) && to.After(a.from) {
				n++
			}
		}
		maxOpen = max(maxOpen, n)
	}
	spmu.Unlock()
	if maxOpen > c.Limit {
		return fmt.Sprintf("%d connections dialed by the client were open at the same time at the scripted listeners, the dial limit is %d", maxOpen, c.Limit)
	}
	if m := maxAddr.Load(); m > int64(c.Addrs) {
		return fmt.Sprintf("the address list held %d addresses, the configured maximum is %d", m, c.Addrs)
	}
	if maxOpen == c.Limit {
		e.lab["dial-limit-reached"] = true
	}
	if maxAddr.Load() == int64(c.Addrs) {
		e.lab["address-limit-reached"] = true
	}
	return ""
}

// ---- reqout ----

func (e *env) runReqOut() string {
	c := e.c
	e.cfg.MaxRequestsOut = c.MaxOut
	if c.DefaultOut > 0 {
		e.cfg.DefaultRequestsOut = c.DefaultOut
	}
	allowed := e.cfg.DefaultRequestsOut
	if c.Reqq > 0 {
		allowed = c.Reqq
	}
	allowed = min(allowed, c.MaxOut)
	if msg := e.start(false, nil); msg != "" {
		return msg
	}
	var pmu sync.Mutex
	var peers []*speer.Peer
	var lns []net.Listener
	for k := 0; k < c.Seeders; k++ {
		ln, err := net.Listen("tcp4", sess.IP(10+k)+":0")
		if err != nil {
			panic(err)
		}
		lns = append(lns, ln)
		k := k
		go func() {
			for {
				conn, err := ln.Accept()
				if err != nil {
					return
				}
				go func() {
					var id [20]byte
					copy(id[:], fmt.Sprintf("-SP0001-%012d", k))
					p, err := speer.Accept(conn, speer.Opts{InfoHash: e.ih, PeerID: id, Fast: true, Ext: true, Reqq: int64(c.Reqq), MSEOptional: true}, 3*time.Second)
					if err != nil {
						return
					}
					pmu.Lock()
					peers = append(peers, p)
					pmu.Unlock()
					speer.Serve(p, speer.Behaviour{DelayPerBlockMs: c.BlockMs}, e.F, int(e.l.PieceLength))
				}()
			}
		}()
		_ = e.tor.AddPeer(ln.Addr().String())
	}
	defer func() {
		for _, ln := range lns {
			ln.Close()
		}
		pmu.Lock()
		for _, p := range peers {
			p.Close()
		}
		pmu.Unlock()
	}()
	select {
	case <-e.tor.NotifyComplete():
		e.lab["reqout-completed"] = true
	case <-time.After(15 * time.Second):
	}
	// requests that had arrived at the scripted seeder and were not yet answered or cancelled: a lower bound of what
	// the client had outstanding at that moment
	pmu.Lock()
	defer pmu.Unlock()
	worst := 0
	for pi, p := range peers {
		out := map[[3]uint32]bool{}
		for _, ev := range p.Log() {
			m := ev.Msg
			key := [3]uint32{m.Index, m.Begin, m.Length}
			switch {
			case !ev.Out && m.Kind == "request":
				out[key] = true
			case !ev.Out && m.Kind == "cancel":
				delete(out, key)
			case ev.Out && m.Kind == "piece":
				delete(out, [3]uint32{m.Index, m.Begin, uint32(len(m.Data))})
			case ev.Out && m.Kind == "reject":
				delete(out, key)
			case ev.Out && m.Kind == "choke":
				out = map[[3]uint32]bool{}
			}
			if len(out) > allowed {
				return fmt.Sprintf("seeder %d had %d requests from the client outstanding at one moment; max-requests-out is %d, the seeder advertised reqq %d (0 = none), default-requests-out is %d: at most %d are allowed",
					pi, len(out), c.MaxOut, c.Reqq, e.cfg.DefaultRequestsOut, allowed)
			}
			worst = max(worst, len(out))
		}
	}
	if worst == allowed {
		e.lab["reqout-limit-reached"] = true
	}
	if c.Reqq > c.MaxOut {
		e.lab["reqout-reqq-above-max"] = true
	}
	return ""
}

// ---- rate ----

func (e *env) runRate() string {
	c := e.c
	e.cfg.SpeedLimitUpload = int64(c.KBps)
	if msg := e.start(true, nil); msg != "" {
		return msg
	}
	p, err := e.dialLeecher(0, true)
	if err != nil {
		return "INCONCLUSIVE leecher cannot connect: " + err.Error()
	}
	defer p.Close()
	p.Send(refwire.Msg{Kind: "havenone"})
	p.Send(refwire.Msg{Kind: "interested"})
	if _, ok := p.WaitFor(0, 3*time.Second, func(m refwire.Msg) bool { return m.Kind == "unchoke" }); !ok {
		return "INCONCLUSIVE leecher was not unchoked"
	}
	bl := e.blocks()
	t0 := time.Now()
	var buf []byte
	for _, b := range bl[:min(len(bl), 200)] {
		buf = append(buf, refwire.Encode(refwire.Msg{Kind: "request", Index: uint32(b.i), Begin: uint32(b.b), Length: uint32(b.l)})...)
	}
	p.SendRaw(buf, nil)
	const T = 1300 * time.Millisecond
	time.Sleep(T)
	var got int64
	var last time.Time
	for _, ev := range p.Log() {
		if !ev.Out && ev.Msg.Kind == "piece" {
			got += int64(len(ev.Msg.Data)) + 13
			last = ev.At
		}
	}
	elapsed := time.Since(t0)
	allowed := int64(float64(c.KBps*1024)*(elapsed.Seconds()+1)) + 16384 + 13
	if got > allowed {
		return fmt.Sprintf("upload limit %d KiB/s: %d bytes of piece messages received in %v (last at %v); limit x (elapsed + 1 s burst) + one message = %d", c.KBps, got, elapsed.Round(time.Millisecond), last.Sub(t0).Round(time.Millisecond), allowed)
	}
	if e.l.Total() > allowed {
		e.lab["rate-binding"] = true // the torrent is bigger than what the limit allows in the window
	}
	e.count["rate-bytes"] = int(got)
	return ""
}

// ---- webseed ----

func (e *env) runWebseed() string {
	c := e.c
	e.cfg.WebseedMaxSources = c.MaxSources
	e.cfg.WebseedMaxDownloads = c.MaxDownloads
	files := map[string][]byte{}
	offs := e.l.FileOffsets()
	for i, f := range e.l.Files {
		if f.Pad != 0 {
			continue
		}
		path := "/" + strings.Join(append([]string{e.l.Name}, f.Path...), "/")
		if e.l.Single {
			path = "/" + e.l.Name
		}
		files[path] = e.F[offs[i] : offs[i]+f.Length]
	}
	var seeds []*strk.WebSeed
	var urls []string
	var inFlight, maxInFlight atomic.Int64
	for k := 0; k < c.Sources; k++ {
		ws, err := strk.NewWebSeed(sess.IP(30+k)+":0", files)
		if err != nil {
			return "INCONCLUSIVE web seed: " + err.Error()
		}
		ws.StallMs = c.BlockMs
		ws.OnStart = func() {
			n := inFlight.Add(1)
			for {
				m := maxInFlight.Load()
				if n <= m || maxInFlight.CompareAndSwap(m, n) {
					break
				}
			}
		}
		ws.OnEnd = func() { inFlight.Add(-1) }
		defer ws.Close()
		seeds = append(seeds, ws)
		urls = append(urls, ws.URL())
	}
	if msg := e.start(false, urls); msg != "" {
		return msg
	}
	if n := len(e.tor.Webseeds()); n > c.MaxSources {
		return fmt.Sprintf("the torrent lists %d web seed sources, the configured maximum is %d (the metainfo has %d)", n, c.MaxSources, c.Sources)
	}
	select {
	case <-e.tor.NotifyComplete():
		e.lab["webseed-completed"] = true
	case <-time.After(8 * time.Second):
	}
	used := 0
	for _, ws := range seeds {
		if len(ws.Log()) > 0 {
			used++
		}
	}
	if used > c.MaxSources {
		return fmt.Sprintf("%d web seed sources received requests, the configured maximum is %d", used, c.MaxSources)
	}
	if m := maxInFlight.Load(); m > int64(c.MaxDownloads) {
		return fmt.Sprintf("%d web seed requests were in flight at the same time, the configured maximum of concurrent web seed downloads is %d", m, c.MaxDownloads)
	}
	if c.Sources > c.MaxSources {
		e.lab["webseed-sources-over-limit"] = true
	}
	if maxInFlight.Load() == int64(c.MaxDownloads) {
		e.lab["webseed-download-limit-reached"] = true
	}
	return ""
}

func runSessCase(c SessCase) core.Result {
	l := &c.L
	e := &env{c: &c, l: l, F: l.Flat(), lab: map[string]bool{}, count: map[string]int{}}
	e.ih = l.InfoHash(e.F)
	dir, cleanup := sess.Scratch("c17")
	defer cleanup()
	e.cfg = sess.Config(dir)
	e.prov = sstore.NewProvider()
	var msg string
	switch c.Scenario {
	case "queue":
		msg = e.runQueue()
	case "ram":
		msg = e.runRAM()
	case "accept":
		msg = e.runAccept()
	case "dial":
		msg = e.runDial()
	case "reqout":
		msg = e.runReqOut()
	case "rate":
		msg = e.runRate()
	case "webseed":
		msg = e.runWebseed()
	}
	if e.ses != nil {
		done := make(chan struct{})
		go func() { e.ses.Close(); close(done) }()
		select {
		case <-done:
		case <-time.After(10 * time.Second):
			if msg == "" {
				msg = "Session.Close did not return within 10 s"
			}
		}
	}
	res := core.Result{Counts: e.count}
	if strings.HasPrefix(msg, "INCONCLUSIVE ") {
		res.Inconcl = c.Scenario + ": " + strings.TrimPrefix(msg, "INCONCLUSIVE ")
		msg = ""
	}
	if msg != "" {
		return core.Failf("%s: %s", c.Scenario, msg)
	}
	e.lab["scenario-"+c.Scenario] = true
	for k := range e.lab {
		res.Labels = append(res.Labels, k)
	}
	sort.Strings(res.Labels)
	res.Nontrivial = res.Inconcl == ""
	return res
}

var _ = io.EOF

func TestSessionLimits(t *testing.T) {
	core.RunChild(t, "c17.session", genSessCase, runSessCase, 120*time.Second)
}
