package c17

import (
	"bytes"
	"fmt"
	"os"
	"testing"
	"time"

	"github.com/cenkalti/rain/v2/internal/logger"
	"github.com/cenkalti/rain/v2/internal/piececache"
	"github.com/cenkalti/rain/v2/internal/resourcemanager"
	"github.com/cenkalti/rain/v2/verifharness/core"
	"pgregory.net/rapid"
)

func TestMain(m *testing.M) {
	if os.Getenv("VERIF_DEBUG") == "" {
		logger.Disable()
	}
	os.Exit(m.Run())
}

// ---- resource manager vs counting model ----

type RMOp struct {
	Op  string `json:"op"` // request | request-cancelled | release | cancel | stats
	Key string `json:"key,omitempty"`
	N   int64  `json:"n,omitempty"`
	Sel int    `json:"sel,omitempty"` // selector for the release/cancel target
}
type RMCase struct {
	Limit int64  `json:"limit"`
	Ops   []RMOp `json:"ops"`
}

func genRM(t *rapid.T) RMCase {
	c := RMCase{Limit: rapid.SampledFrom([]int64{1, 2, 3, 5, 8, 16}).Draw(t, "limit")}
	n := rapid.IntRange(1, 40).Draw(t, "nops")
	for i := 0; i < n; i++ {
		switch rapid.IntRange(0, 9).Draw(t, "op") {
		case 0, 1, 2, 3:
			c.Ops = append(c.Ops, RMOp{Op: "request", Key: rapid.SampledFrom([]string{"a", "b", "c"}).Draw(t, "key"),
				N: rapid.SampledFrom([]int64{0, 1, 1, 2, 3, c.Limit, c.Limit + 1, -1}).Draw(t, "n")})
		case 4, 5, 6:
			c.Ops = append(c.Ops, RMOp{Op: "release", Sel: rapid.IntRange(0, 50).Draw(t, "sel")})
		case 7:
			c.Ops = append(c.Ops, RMOp{Op: "cancel", Sel: rapid.IntRange(0, 50).Draw(t, "sel")})
		case 8:
			if rapid.Bool().Draw(t, "precancelled") {
				// the requester's cancel channel is already closed when it asks (a peer that has just dropped)
				c.Ops = append(c.Ops, RMOp{Op: "request-cancelled", Key: rapid.SampledFrom([]string{"a", "b", "c"}).Draw(t, "key"),
					N: rapid.SampledFrom([]int64{1, 1, 2, c.Limit}).Draw(t, "n")})
			} else {
				c.Ops = append(c.Ops, RMOp{Op: "cancel", Sel: rapid.IntRange(0, 50).Draw(t, "sel")})
			}
		default:
			c.Ops = append(c.Ops, RMOp{Op: "stats"})
		}
	}
	return c
}

type rmReq struct {
	id        int
	key       string
	n         int64
	notifyC   chan int
	cancelC   chan struct{}
	cancelled bool
}

func runRM(c RMCase) core.Result {
	m := resourcemanager.New[int](c.Limit)
	defer m.Close()
	var granted, waiting []*rmReq
	lab := map[string]bool{}
	sum := func() (s int64) {
		for _, g := range granted {
			s += g.n
		}
		return
	}
	drain := func() int {
		moved := 0
		for i := 0; i < len(waiting); {
			select {
			case v := <-waiting[i].notifyC:
				if v != waiting[i].id {
					panic("foreign data on a private notify channel")
				}
				if waiting[i].cancelled {
					lab["notified-after-cancel"] = true
				} else {
					lab["notified"] = true
				}
				granted = append(granted, waiting[i])
				waiting = append(waiting[:i], waiting[i+1:]...)
				moved++
			default:
				i++
			}
		}
		return moved
	}
	settle := func(oi int, what string) string {
		var last resourcemanager.Stats
		stable := 0
		for iter := 0; iter < 400 && stable < 3; iter++ {
			moved := drain()
			st := m.Stats()
			if st.AllocatedSize > c.Limit || st.AllocatedSize < 0 || st.AllocatedObjects < 0 {
				return fmt.Sprintf("op %d (%s): manager reports %+v, outside [0, limit %d]", oi, what, st, c.Limit)
			}
			if moved == 0 && st == last {
				stable++
			} else {
				stable = 0
			}
			last = st
		}
		if sum() > c.Limit {
			return fmt.Sprintf("op %d (%s): reservations held by callers add up to %d, limit %d", oi, what, sum(), c.Limit)
		}
		if last.AllocatedSize != sum() || last.AllocatedObjects != len(granted) {
			return fmt.Sprintf("op %d (%s): manager reports %d units in %d objects; callers hold %d units in %d reservations (limit %d)", oi, what, last.AllocatedSize, last.AllocatedObjects, sum(), len(granted), c.Limit)
		}
		all, live := map[string]bool{}, map[string]bool{}
		for _, w := range waiting {
			all[w.key] = true
			if !w.cancelled {
				live[w.key] = true
			}
		}
		if last.PendingKeys > len(all) || last.PendingKeys < len(live) {
			return fmt.Sprintf("op %d (%s): manager reports %d pending keys; callers wait under %d keys (%d of them not cancelled)", oi, what, last.PendingKeys, len(all), len(live))
		}
		return ""
	}
	nextID := 0
	for oi, op := range c.Ops {
		switch op.Op {
		case "request":
			r := &rmReq{id: nextID, key: op.Key, n: op.N, notifyC: make(chan int, 1), cancelC: make(chan struct{})}
			nextID++
			acquired := m.Request(r.key, r.id, r.n, r.notifyC, r.cancelC)
			switch {
			case op.N < 0:
				if acquired {
					return core.Failf("op %d: a negative request was acquired", oi)
				}
			case acquired:
				granted = append(granted, r)
				if sum() > c.Limit {
					return core.Failf("op %d: request of %d acquired although %d of %d were already reserved", oi, r.n, sum()-r.n, c.Limit)
				}
			default:
				waiting = append(waiting, r)
				lab["queued"] = true
			}
		case "request-cancelled":
			r := &rmReq{id: nextID, key: op.Key, n: op.N, notifyC: make(chan int, 1), cancelC: make(chan struct{}), cancelled: true}
			nextID++
			close(r.cancelC)
			if m.Request(r.key, r.id, r.n, r.notifyC, r.cancelC) {
				// the manager answered before the cancellation was seen: the caller holds the reservation
				granted = append(granted, r)
				lab["cancelled-request-acquired"] = true
			} else {
				// nothing was acquired; should the manager still grant it later, the grant arrives on notifyC
				waiting = append(waiting, r)
				lab["cancelled-request-refused"] = true
			}
		case "release":
			if len(granted) == 0 {
				continue
			}
			i := op.Sel % len(granted)
			m.Release(granted[i].n)
			granted = append(granted[:i], granted[i+1:]...)
			lab["release"] = true
		case "cancel":
			var live []*rmReq
			for _, w := range waiting {
				if !w.cancelled {
					live = append(live, w)
				}
			}
			if len(live) == 0 {
				continue
			}
			r := live[op.Sel%len(live)]
			r.cancelled = true
			close(r.cancelC)
			lab["cancel"] = true
		}
		if s := settle(oi, op.Op); s != "" {
			return core.Failf("%s", s)
		}
	}
	// release everything: the manager must return to empty
	for _, g := range granted {
		m.Release(g.n)
	}
	granted = nil
	for _, w := range waiting {
		if !w.cancelled {
			w.cancelled = true
			close(w.cancelC)
		}
	}
	// cancelled requests may still be granted when the manager next looks at them (documented race): whatever
	// arrives is released, as real callers do; the books must balance whenever the manager is quiet.
	for round := 0; ; round++ {
		drain()
		for _, g := range granted {
			m.Release(g.n)
		}
		granted = nil
		st := m.Stats()
		if drain() == 0 && st.AllocatedSize == 0 && st.AllocatedObjects == 0 {
			break
		}
		if round > 2000 {
			return core.Failf("after releasing everything the manager still reports %+v and no further grant arrives", st)
		}
	}
	res := core.Result{}
	for k := range lab {
		res.Labels = append(res.Labels, k)
	}
	res.Nontrivial = lab["queued"] && (lab["notified"] || lab["cancel"])
	return res
}

func TestResourceManager(t *testing.T) { core.Run(t, "c17.resourcemanager", genRM, runRM) }

// ---- piece cache ----

type PCOp struct {
	Op   string `json:"op"` // get | clear | sleep
	Key  int    `json:"key,omitempty"`
	Size int    `json:"size,omitempty"`
	Fail bool   `json:"fail,omitempty"`
}
type PCCase struct {
	Max   int64  `json:"max"`
	TTLms int    `json:"ttl_ms"`
	Ops   []PCOp `json:"ops"`
}

func genPC(t *rapid.T) PCCase {
	c := PCCase{Max: rapid.SampledFrom([]int64{0, 1, 10, 100, 1000}).Draw(t, "max"), TTLms: rapid.SampledFrom([]int{1, 1, 2, 60000}).Draw(t, "ttl")}
	n := rapid.IntRange(1, 40).Draw(t, "nops")
	for i := 0; i < n; i++ {
		switch rapid.IntRange(0, 9).Draw(t, "op") {
		case 0:
			c.Ops = append(c.Ops, PCOp{Op: "clear"})
		case 1:
			c.Ops = append(c.Ops, PCOp{Op: "sleep"})
		default:
			c.Ops = append(c.Ops, PCOp{Op: "get", Key: rapid.IntRange(0, 6).Draw(t, "key"),
				Size: int(rapid.SampledFrom([]int64{0, 1, 5, c.Max - 1, c.Max, c.Max + 1, c.Max / 2, c.Max/2 + 1}).Draw(t, "size")), Fail: rapid.IntRange(0, 9).Draw(t, "fail") == 0})
		}
	}
	return c
}

func content(key, size int) []byte {
	if size < 0 {
		size = 0
	}
	b := make([]byte, size)
	for i := range b {
		b[i] = byte(key*31 + i)
	}
	return b
}

func runPC(c PCCase) core.Result {
	cache := piececache.New(c.Max, time.Duration(c.TTLms)*time.Millisecond, 2)
	sizes := map[int]int{} // size a key was first loaded with while it may still be cached
	lab := map[string]bool{}
	for oi, op := range c.Ops {
		switch op.Op {
		case "clear":
			cache.Clear()
			sizes = map[int]int{}
			if cache.Size() != 0 || cache.Len() != 0 {
				return core.Failf("op %d: after Clear size=%d len=%d", oi, cache.Size(), cache.Len())
			}
			lab["clear"] = true
		case "sleep":
			time.Sleep(time.Duration(min(c.TTLms+1, 4)) * time.Millisecond)
			if c.TTLms < 100 {
				sizes = map[int]int{} // everything may have expired (or not yet: expiry is asynchronous)
				lab["expiry"] = true
			}
		case "get":
			loaded := false
			v, err := cache.Get(fmt.Sprint(op.Key), func() ([]byte, error) {
				loaded = true
				if op.Fail {
					return nil, fmt.Errorf("load error")
				}
				return content(op.Key, op.Size), nil
			})
			if loaded {
				if op.Fail {
					if err == nil {
						return core.Failf("op %d: loader failed but Get returned no error", oi)
					}
					lab["load-error"] = true
					continue
				}
				if err != nil || !bytes.Equal(v, content(op.Key, op.Size)) {
					return core.Failf("op %d: Get returned %d bytes err=%v, loader produced %d bytes", oi, len(v), err, max(op.Size, 0))
				}
				sizes[op.Key] = max(op.Size, 0)
			} else {
				// served from cache: must be what an earlier loader produced for this key
				want, ok := sizes[op.Key]
				if !ok {
					// entry survived an expiry window we assumed had passed: contents still must belong to this key
					want = len(v)
				}
				if err != nil || !bytes.Equal(v, content(op.Key, want)) {
					return core.Failf("op %d: cached value for key %d is %d bytes (err=%v), expected the %d bytes loaded earlier", oi, op.Key, len(v), err, want)
				}
				lab["hit"] = true
			}
		}
		if s := cache.Size(); s > c.Max || s < 0 {
			return core.Failf("op %d: cache size %d outside [0, max %d]", oi, s, c.Max)
		}
	}
	cache.Close()
	res := core.Result{}
	for k := range lab {
		res.Labels = append(res.Labels, k)
	}
	res.Nontrivial = lab["hit"] || lab["expiry"] || lab["clear"]
	return res
}

func TestPieceCache(t *testing.T) { core.Run(t, "c17.piececache", genPC, runPC) }
