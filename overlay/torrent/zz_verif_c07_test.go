package torrent

import (
	"archive/tar"
	"bytes"
	"fmt"
	"os"
	"path/filepath"
	"sort"
	"strings"
	"testing"

	"github.com/cenkalti/rain/v2/verifharness/core"
	"pgregory.net/rapid"
)

// TarCase: entries of an archive handed to readData (the receiving side of "move torrent").
type TarCase struct {
	Entries []TarEntry `json:"entries"`
}

type TarEntry struct {
	Name     []byte `json:"name"`
	Type     byte   `json:"type"`
	Linkname string `json:"link,omitempty"`
	Size     int    `json:"size"`
}

var tarHostile = []string{"..", ".", "", "/", "a/b", "../x", "../../x", "/etc/passwd", "a/../../x", "a/../b", "./x", "x/", "../root2/x", "..", "../", "d/../../../../x", "/abs/x",
	"canary", "../canary", "../../canary", "..\\x", "a\x00b", "\xff", "sub/dir/file", strings.Repeat("n", 200), "root/../../x"}

func genTar(t *rapid.T) TarCase {
	var c TarCase
	n := rapid.IntRange(1, 5).Draw(t, "n")
	for i := 0; i < n; i++ {
		e := TarEntry{Size: rapid.IntRange(0, 20).Draw(t, "size")}
		switch rapid.IntRange(0, 4).Draw(t, "nameClass") {
		case 0:
			e.Name = []byte(rapid.SampledFrom([]string{"a", "b", "d/a", "d/b"}).Draw(t, "name"))
		case 1:
			e.Name = []byte(rapid.StringMatching(`[./a]{0,8}`).Draw(t, "name"))
		default:
			e.Name = []byte(rapid.SampledFrom(tarHostile).Draw(t, "name"))
		}
		e.Type = rapid.SampledFrom([]byte{tar.TypeReg, tar.TypeReg, tar.TypeReg, tar.TypeDir, tar.TypeSymlink, tar.TypeLink, tar.TypeChar, tar.TypeFifo}).Draw(t, "type")
		if e.Type == tar.TypeSymlink || e.Type == tar.TypeLink {
			e.Linkname = rapid.SampledFrom([]string{"..", "../..", "/", "../canary", "/etc"}).Draw(t, "link")
			e.Size = 0
		}
		if e.Type == tar.TypeDir || e.Type == tar.TypeChar || e.Type == tar.TypeFifo {
			e.Size = 0
		}
		c.Entries = append(c.Entries, e)
	}
	return c
}

func (c *TarCase) bytes() ([]byte, bool) {
	var buf bytes.Buffer
	tw := tar.NewWriter(&buf)
	for _, e := range c.Entries {
		h := &tar.Header{Name: string(e.Name), Typeflag: e.Type, Linkname: e.Linkname, Size: int64(e.Size), Mode: 0o644, Format: tar.FormatPAX}
		if err := tw.WriteHeader(h); err != nil {
			return nil, false
		}
		if e.Size > 0 {
			if _, err := tw.Write(bytes.Repeat([]byte{'Z'}, e.Size)); err != nil {
				return nil, false
			}
		}
	}
	if err := tw.Close(); err != nil {
		return nil, false
	}
	return buf.Bytes(), true
}

func c07snapshot(root, skip string) map[string]string {
	out := map[string]string{}
	_ = filepath.Walk(root, func(p string, fi os.FileInfo, err error) error {
		if err != nil {
			return nil
		}
		if p == skip {
			return filepath.SkipDir
		}
		if fi.IsDir() {
			out[p] = "dir"
			return nil
		}
		b, _ := os.ReadFile(p)
		out[p] = fmt.Sprintf("%v:%d:%x", fi.Mode().Type(), fi.Size(), b)
		return nil
	})
	return out
}

func runTar(c TarCase) core.Result {
	res := core.Result{}
	b, ok := c.bytes()
	if !ok {
		res.Labels = []string{"unencodable"}
		return res
	}
	for _, e := range c.Entries {
		s := string(e.Name)
		if strings.Contains(s, "..") || strings.HasPrefix(s, "/") {
			res.Nontrivial = true
		}
	}
	base := "/dev/shm"
	if _, err := os.Stat(base); err != nil {
		base = os.TempDir()
	}
	top, err := os.MkdirTemp(base, "verif-c07tar-")
	if err != nil {
		panic(err)
	}
	defer os.RemoveAll(top)
	dest := filepath.Join(top, "a", "b", "root")
	if err := os.MkdirAll(filepath.Join(top, "a", "b", "root2"), 0o755); err != nil {
		panic(err)
	}
	for _, d := range []string{top, filepath.Join(top, "a"), filepath.Join(top, "a", "b"), filepath.Join(top, "a", "b", "root2")} {
		for _, n := range []string{"canary", "x"} {
			_ = os.WriteFile(filepath.Join(d, n), []byte("canary:"+d+n), 0o644)
		}
	}
	before := c07snapshot(top, dest)
	err = readData(bytes.NewReader(b), dest, 0o755)
	if err == nil {
		res.Labels = append(res.Labels, "extracted")
	} else {
		res.Labels = append(res.Labels, "error")
	}
	after := c07snapshot(top, dest)
	var d []string
	for k, v := range before {
		if w, ok := after[k]; !ok {
			d = append(d, "removed "+k)
		} else if w != v {
			d = append(d, "changed "+k)
		}
	}
	for k := range after {
		if _, ok := before[k]; !ok {
			d = append(d, "created "+k)
		}
	}
	sort.Strings(d)
	if len(d) > 0 {
		return core.Failf("readData touched the tree outside its destination: %s", strings.ReplaceAll(strings.Join(d, "; "), top, "<T>"))
	}
	// nothing inside dest may be a symlink or special file that later path resolution could follow outside
	bad := ""
	_ = filepath.Walk(dest, func(p string, fi os.FileInfo, err error) error {
		if err == nil && fi.Mode()&os.ModeSymlink != 0 {
			bad = p
		}
		return nil
	})
	if bad != "" {
		return core.Failf("readData created a symlink inside the destination: %s", strings.ReplaceAll(bad, top, "<T>"))
	}
	return res
}

func TestVerifC07Tar(t *testing.T) { core.Run(t, "c07.tar", genTar, runTar) }
