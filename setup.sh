#!/bin/sh
# Run once after a fresh restore, offline: warms the Go build cache by compiling every harness test binary.
cd "$(dirname "$0")" || exit 1
exec ./check --setup
